"""Normal forms of value graphs.

Algebra E — identities that hold bit-for-bit in IEEE-754 binary64 round-to-nearest-even,
signed zeros included (NaN payloads not considered):
    a+b = b+a            a*b = b*a            a-b = a+(-b)        -(-a) = a
    (-a)*b = -(a*b)      (-a)/b = a/(-b) = -(a/b)
    fma(a,b,c) = fma(b,a,c)      fma(-a,b,c) = fma(a,-b,c)
    2Sum(a,b) = 2Sum(b,a), 2Prod(a,b) = 2Prod(b,a)      (theorem: both are error-free, so both
                                                        words are determined by the exact value)
Algebra Z — E plus identities that hold except for the sign of an exactly-zero result:
    (-a)+(-b) = -(a+b)           fma(-a,b,-c) = -fma(a,b,c)
    2Sum(-a,-b) = -2Sum(a,b)     2Prod(-a,b) = -2Prod(a,b)     2Sub(a,b) = 2Sum(a,-b)
Nothing else: no associativity, no distributivity, no x*1, no constant folding of floats.
"""
import hashlib, re
from .terms import mk, tag, Node, rebuild, all_nodes

_dig = {}

def digest(t):
    """stable structural digest (independent of object identity / run)"""
    if type(t) is Node:
        d = _dig.get(t)
        if d is not None:
            return d
        # iterative post-order
        stack = [(t, False)]
        while stack:
            n, done = stack.pop()
            if n in _dig:
                continue
            if not done:
                stack.append((n, True))
                for c in n.a:
                    _push(c, stack)
            else:
                h = hashlib.sha1()
                for c in n.a:
                    h.update(_dg(c).encode())
                    h.update(b"|")
                _dig[n] = h.hexdigest()[:20]
        return _dig[t]
    return _dg(t)

def _push(c, stack):
    if type(c) is Node:
        if c not in _dig:
            stack.append((c, False))
    elif type(c) is tuple:
        for x in c:
            _push(x, stack)

def _dg(c):
    if type(c) is Node:
        return _dig[c]
    if type(c) is tuple:
        return "(" + ",".join(_dg(x) for x in c) + ")"
    return repr(c)

NEG_BLIND = frozenset(["core::f64::<impl f64>::classify", "libm::fabs", "core::f64::<impl f64>::abs", "std::f64::<impl f64>::abs", "core::f64::<impl f64>::is_nan",
                       "core::f64::<impl f64>::is_finite", "core::f64::<impl f64>::is_infinite", "core::f64::<impl f64>::is_normal", "core::f64::<impl f64>::is_subnormal"])

def neg(x):
    if tag(x) == "f" and x[1] == "neg":
        return x[2]
    if tag(x) == "const" and x[1] == "f64":
        return mk("const", "f64", x[2] ^ (1 << 63))
    if tag(x) == "pneg":
        return x[1]
    return mk("f", "neg", x)

def split_sign(x):
    """(is_negated, magnitude term)"""
    if tag(x) == "f" and x[1] == "neg":
        return True, x[2]
    if tag(x) == "const" and x[1] == "f64" and (x[2] >> 63):
        return True, mk("const", "f64", x[2] ^ (1 << 63))
    return False, x

def pneg(x):
    if tag(x) == "pneg":
        return x[1]
    return mk("pneg", x)

def pow2_recip(y):
    """the f64 constant 2^-k when y is the f64 constant 2^k and both are normal numbers, else None"""
    if tag(y) != "const" or y[1] != "f64":
        return None
    bits = y[2]
    if bits >> 63 or bits & ((1 << 52) - 1):
        return None
    e = bits >> 52
    if not (1 <= e <= 2046) or not (1 <= 2046 - e <= 2046):
        return None
    return mk("const", "f64", (2046 - e) << 52)

def zipped_table(hi, lo):
    """TwoFloat { hi: A[i], lo: B[i] } for two constant f64 tables of one length is entry i of the table of pairs"""
    if tag(hi) == "index" and tag(lo) == "index" and hi[2] is lo[2] and tag(hi[1]) == "carray" and tag(lo[1]) == "carray":
        ma = re.match(r"^\[f64; (\d+)\]$", hi[1][1]); mb = re.match(r"^\[f64; (\d+)\]$", lo[1][1])
        if ma and mb and ma.group(1) == mb.group(1):
            return mk("index", zip_carrays(hi[1], lo[1]), hi[2])
    return None

def zip_carrays(a, b):
    n = int(re.match(r"^\[f64; (\d+)\]$", a[1]).group(1))
    ha, hb = a[2], b[2]
    return mk("carray", "[TwoFloat; %d]" % n, "".join(ha[16 * i:16 * i + 16] + hb[16 * i:16 * i + 16] for i in range(n)))

class Normalizer:
    def __init__(self, mode="E", eft=None, strip_fma_provider=True, opcomm=False):
        assert mode in ("E", "Z")
        self.mode = mode
        self.eft = eft or {}     # call name -> "ts" | "tsn" | "tp"
        self.memo = {}
        self.strip = strip_fma_provider
        self.opcomm = opcomm
        self.lifted = set()      # private helpers returning Option<T> whose callers unwrap: the payload of `Some` is the call

    def norm(self, t):
        if type(t) is tuple:
            return tuple(self.norm(x) for x in t)
        if type(t) is not Node:
            return t
        return rebuild(t, self._node, self.memo)

    # children are already normalised
    def _node(self, a):
        tg = a[0]
        if tg == "f":
            return self._f(a)
        if tg == "field":
            x, i = a[1], a[2]
            if self.lifted and i == 0 and tag(x) == "downcast" and x[2] == "Some" and tag(x[1]) == "call" and x[1][1] in self.lifted:
                return x[1]
            if tag(x) == "pneg":
                return neg(self._node(("field", x[1], i)))
            if tag(x) == "agg" and i < len(x[2]) and x[2][i] is not None:
                return x[2][i]
            return mk(*a)
        if tg == "agg" and a[1][0] == "adt" and a[1][1] == "TwoFloat" and len(a[2]) == 2:
            z = zipped_table(a[2][0], a[2][1])
            if z is not None:
                return z
        if tg == "call" and len(a) == 3 and tag(a[2]) == "f" and a[2][1] == "neg" and a[1] in NEG_BLIND:
            # negation flips the sign bit and nothing else: category, magnitude and the NaN / finite / infinite / normal predicates
            # of -x are those of x
            return self._node(("call", a[1], a[2][2]))
        if tg == "call" and len(a) == 3 and tag(a[2]) == "f" and a[2][1] == "neg" and a[1] in ("core::f64::<impl f64>::is_sign_positive", "core::f64::<impl f64>::is_sign_negative"):
            other = "core::f64::<impl f64>::is_sign_negative" if a[1].endswith("positive") else "core::f64::<impl f64>::is_sign_positive"
            return self._node(("call", other, a[2][2]))
        if tg == "i" and a[1] == "bitand" and len(a) == 5 and a[2] == "u64":
            # a bit field of to_bits(-x) that leaves the sign bit out is that field of to_bits(x)
            for fld, msk in ((a[3], a[4]), (a[4], a[3])):
                if tag(msk) != "const":
                    continue
                sh = 0; w = fld
                if tag(w) == "i" and w[1] == "shr" and len(w) == 5 and tag(w[4]) == "const":
                    sh = w[4][2]; w = w[3]
                if tag(w) == "call" and len(w) == 3 and w[1] == "core::f64::<impl f64>::to_bits" and tag(w[2]) == "f" and w[2][1] == "neg" \
                        and sh < 64 and ((msk[2] << sh) >> 63) & 1 == 0:
                    w2 = mk("call", w[1], w[2][2])
                    fld2 = w2 if fld is w else mk("i", "shr", fld[2], w2, fld[4])
                    return mk("i", "bitand", "u64", fld2, msk) if fld is a[3] else mk("i", "bitand", "u64", msk, fld2)
        if tg == "cmp" and a[2] == "f64" and len(a) == 5:
            # -x op c  <=>  x flipped-op -c  (exact: negation is an order-reversing bijection of the numbers, and NaN stays NaN)
            x, y = a[3], a[4]
            FL = {"lt": "gt", "gt": "lt", "le": "ge", "ge": "le", "eq": "eq", "ne": "ne"}
            if tag(x) == "f" and x[1] == "neg" and tag(y) == "const" and a[1] in FL:
                return self._node(("cmp", FL[a[1]], "f64", x[2], neg(y)))
            if tag(y) == "f" and y[1] == "neg" and tag(x) == "const" and a[1] in FL:
                return self._node(("cmp", FL[a[1]], "f64", neg(x), y[2]))
        if tg == "call" and self.opcomm and len(a) == 3:
            # sign queries: TwoFloat::is_sign_positive(x) is the sign bit of x.hi (checked by C06/R12d);
            # is_sign_negative is its complement
            if a[1] == "TwoFloat::recip":
                # recip(x) is 1.0 / x (checked by C05/R11)
                return mk("call", "op:div:f64:TwoFloat", mk("const", "f64", 0x3FF0000000000000), a[2])
            if a[1] == "TwoFloat::is_sign_positive":
                return mk("call", "core::f64::<impl f64>::is_sign_positive", self._node(("field", a[2], 0)))
            if a[1] == "TwoFloat::is_sign_negative":
                return mk("not", mk("call", "core::f64::<impl f64>::is_sign_positive", self._node(("field", a[2], 0))))
            if a[1] == "core::f64::<impl f64>::is_sign_negative":
                return mk("not", mk("call", "core::f64::<impl f64>::is_sign_positive", a[2]))
        if tg == "call":
            kind = self.eft.get(a[1])
            if kind is not None and len(a) == 4:
                return self._eft(kind, a[2], a[3])
            if self.opcomm and len(a) == 4 and (a[1].startswith("op:add:") or a[1].startswith("op:mul:")):
                # TwoFloat + and * with either operand order (x+f == f+x, x*f == f*x, a+b == b+a are
                # proved bit-exact by C10; a*b vs b*a differs by at most one ulp of the low word)
                x, y = self._sorted2(a[2], a[3])
                return mk("call", "opc:" + a[1].split(":")[1], x, y)
            return mk(*a)
        if tg == "eft_err":
            return self._eft_err(a[1], a[2], a[3])
        if tg == "cmp" and self.opcomm and a[1] in ("eq", "ne") and a[2] == "f64":
            # copysign(c, a) ==/!= copysign(c, b) for a non-zero finite constant c compares the sign bits
            x, y = a[3], a[4]
            if tag(x) == "call" and tag(y) == "call" and x[1] == y[1] == "libm::copysign" and len(x) == len(y) == 4 and x[2] is y[2] \
                    and tag(x[2]) == "const" and (x[2][2] & ((1 << 63) - 1)) not in (0,) and ((x[2][2] >> 52) & 0x7ff) != 0x7ff:
                sp = lambda w: mk("call", "core::f64::<impl f64>::is_sign_positive", w)
                p, q = self._sorted2(sp(x[3]), sp(y[3]))
                return mk("cmp", a[1], "bool", p, q)
        if tg == "cmp" and self.opcomm and a[1] in ("eq", "ne") and a[2] == "bool":
            x, y = a[3], a[4]
            # !p == !q  <=>  p == q
            if tag(x) == "not" and tag(y) == "not":
                x, y = x[1], y[1]
            p, q = self._sorted2(x, y)
            return mk("cmp", a[1], "bool", p, q)
        return mk(*a)

    def _sorted2(self, x, y):
        return (x, y) if digest(x) <= digest(y) else (y, x)

    def _f(self, a):
        op = a[1]
        if op == "neg":
            return neg(a[2])
        if op == "sub":
            return self._add(a[2], neg(a[3]))
        if op == "add":
            return self._add(a[2], a[3])
        if op == "mul":
            sx, x = split_sign(a[2]); sy, y = split_sign(a[3])
            x, y = self._sorted2(x, y)
            r = mk("f", "mul", x, y)
            return neg(r) if sx != sy else r
        if op == "div":
            sx, x = split_sign(a[2]); sy, y = split_sign(a[3])
            rc = pow2_recip(y)
            if rc is not None:
                # x / 2^k and x * 2^-k are the correctly rounded value of the same real number
                p, q = self._sorted2(x, rc)
                r = mk("f", "mul", p, q)
            else:
                r = mk("f", "div", x, y)
            return neg(r) if sx != sy else r
        if op == "fma":
            sx, x = split_sign(a[2]); sy, y = split_sign(a[3]); c = a[4]
            x, y = self._sorted2(x, y)
            sp = sx != sy
            if self.mode == "Z" and sp:
                # -(x*y) + c  =  -( x*y + (-c) )
                return neg(mk("f", "fma", x, y, neg(c)))
            if sp:
                return mk("f", "fma-", x, y, c)
            return mk("f", "fma", x, y, c)
        return mk(*a)

    def _add(self, x, y):
        if x is y and not (tag(x) == "const"):
            # x + x is 2 * x, exactly and for every x (NaN, infinities, both zeros): `h + h` for `2.0 * h`
            sx, mx = split_sign(x)
            p, q = self._sorted2(mx, mk("const", "f64", 0x4000000000000000))
            r = mk("f", "mul", p, q)
            return neg(r) if sx else r
        if self.mode == "Z":
            sx, mx = split_sign(x); sy, my = split_sign(y)
            if digest(mx) <= digest(my):
                first_s, a, sb, b = sx, mx, sy, my
            else:
                first_s, a, sb, b = sy, my, sx, mx
            if first_s:
                # flip both signs and pull the negation out
                # -(a) + s*b  ->  -( a + (-s)*b )
                bb = b if sb else neg(b)
                # keep child order canonical by magnitude digest: a first
                return neg(mk("f", "add", a, bb))
            bb = neg(b) if sb else b
            return mk("f", "add", a, bb)
        p, q = self._sorted2(x, y)
        return mk("f", "add", p, q)

    def _eft_err(self, kind, x, y):
        """error term of an error-free transformation: determined by the exact value of the operation
        (theorem), hence commutative for + and *; odd under joint negation up to the sign of zero"""
        if kind == "sub":
            if self.mode == "Z":
                kind, y = "add", neg(y)
            else:
                return mk("eft_err", "sub", x, y)
        if kind == "add":
            if self.mode == "Z":
                sx, mx = split_sign(x); sy, my = split_sign(y)
                if digest(mx) <= digest(my):
                    fs, a, sb, b = sx, mx, sy, my
                else:
                    fs, a, sb, b = sy, my, sx, mx
                if fs:
                    return neg(mk("eft_err", "add", a, b if sb else neg(b)))
                return mk("eft_err", "add", a, neg(b) if sb else b)
            p, q = self._sorted2(x, y)
            return mk("eft_err", "add", p, q)
        if kind == "mul":
            sx, mx = split_sign(x); sy, my = split_sign(y)
            a, b = self._sorted2(mx, my)
            if self.mode == "Z":
                r = mk("eft_err", "mul", a, b)
                return neg(r) if sx != sy else r
            if sx != sy:
                return mk("eft_err", "mul-", a, b)
            return mk("eft_err", "mul", a, b)
        return mk("eft_err", kind, x, y)

    def _eft(self, kind, x, y):
        if kind == "tsn":
            if self.mode == "Z":
                kind, y = "ts", neg(y)
            else:
                return mk("eft", "tsn", x, y)
        if kind == "ts":
            if self.mode == "Z":
                sx, mx = split_sign(x); sy, my = split_sign(y)
                if digest(mx) <= digest(my):
                    fs, a, sb, b = sx, mx, sy, my
                else:
                    fs, a, sb, b = sy, my, sx, mx
                if fs:
                    return pneg(mk("eft", "ts", a, b if sb else neg(b)))
                return mk("eft", "ts", a, neg(b) if sb else b)
            p, q = self._sorted2(x, y)
            return mk("eft", "ts", p, q)
        if kind == "tp":
            sx, mx = split_sign(x); sy, my = split_sign(y)
            a, b = self._sorted2(mx, my)
            if self.mode == "Z":
                r = mk("eft", "tp", a, b)
                return pneg(r) if sx != sy else r
            if sx != sy:
                return mk("eft", "tp-", a, b)
            return mk("eft", "tp", a, b)
        return mk("eft", kind, x, y)

def recognise_eft(t):
    """Replace the error terms of inlined error-free transformations by canonical nodes:
         2Sum   (a - (s - b)) + (b - (s - (s - b))),  s = a + b      ->  ("eft_err", "add", a, b)
         2Sub   (a - (s + b)) - (b + (s - (s + b))),  s = a - b      ->  ("eft_err", "sub", a, b)
         2Prod  fma(a, b, -(a * b))                                   ->  ("eft_err", "mul", a, b)
       The patterns are matched on raw IEEE-operation terms (either operand order of the commutative
       operations), so the identities of C10 do not depend on where function boundaries are drawn."""
    def is_f(n, op):
        return tag(n) == "f" and n[1] == op
    def s_add(s, a, b):
        return is_f(s, "add") and ((s[2] is a and s[3] is b) or (s[2] is b and s[3] is a))
    def f(k):
        n = mk(*k)
        if k[0] != "f":
            return n
        if k[1] == "add":
            for da, db in ((k[2], k[3]), (k[3], k[2])):
                if is_f(da, "sub") and is_f(db, "sub"):
                    a, aa = da[2], da[3]; b, bb = db[2], db[3]
                    if is_f(aa, "sub") and aa[3] is b and is_f(bb, "sub") and bb[2] is aa[2] and bb[3] is aa and s_add(aa[2], a, b):
                        return mk("eft_err", "add", a, b)
        if k[1] == "sub":
            da, db = k[2], k[3]
            if is_f(da, "sub") and is_f(db, "add"):
                a, aa = da[2], da[3]
                for b, bb in ((db[2], db[3]), (db[3], db[2])):
                    if is_f(aa, "add") and is_f(bb, "sub") and bb[3] is aa:
                        s = bb[2]
                        if ((aa[2] is s and aa[3] is b) or (aa[3] is s and aa[2] is b)) and is_f(s, "sub") and s[2] is a and s[3] is b:
                            return mk("eft_err", "sub", a, b)
        if k[1] == "fma":
            a, b, c = k[2], k[3], k[4]
            if is_f(c, "neg") and is_f(c[2], "mul") and ((c[2][2] is a and c[2][3] is b) or (c[2][2] is b and c[2][3] is a)):
                return mk("eft_err", "mul", a, b)
        return n
    if type(t) is tuple:
        return tuple(recognise_eft(x) for x in t)
    if type(t) is not Node:
        return t
    return rebuild(t, f, {})

def strip_provider(t):
    """drop the fma provider annotation"""
    def f(a):
        if a[0] == "f" and a[1] == "fma" and len(a) == 6:
            return mk("f", "fma", a[2], a[3], a[4])
        return mk(*a)
    return rebuild(t, f, {}) if type(t) is Node else (tuple(strip_provider(x) for x in t) if type(t) is tuple else t)

def fma_providers(t):
    out = set()
    for n in all_nodes(t):
        if n[0] == "f" and n[1] == "fma" and len(n) == 6:
            out.add(n[5])
    return out

def first_difference(a, b, path="root"):
    """path to the first structural difference between two normalised terms / tuples"""
    if a is b:
        return None
    if type(a) is Node and type(b) is Node:
        if a[0] != b[0] or len(a) != len(b):
            return path, a, b
        for i, (x, y) in enumerate(zip(a.a, b.a)):
            d = first_difference(x, y, "%s>%s.%d" % (path, a[0] if i else a[0], i))
            if d:
                return d
        return path, a, b
    if type(a) is tuple and type(b) is tuple:
        if len(a) != len(b):
            return path, a, b
        for i, (x, y) in enumerate(zip(a, b)):
            d = first_difference(x, y, "%s[%d]" % (path, i))
            if d:
                return d
        return None
    if a != b:
        return path, a, b
    return None
