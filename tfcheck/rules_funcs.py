"""C13-C18: reference forms, guard tables and data rules of the mathematical functions."""
import math, re
from . import vg, norm, helpers as H, facts as F, dectree as D, idioms, oracle, refs
from .dectree import IF, RET, TRUE, FALSE
from .dsl import V, TFv, param, libm, f64m, cast, const_tf, fcmp, tcmp, teq, RETV, NAN_LEAF, STRICT_NAN_LEAF, leaf_eq_nan, lift
from .helpers import P, TF
from .terms import mk, tag, all_nodes
from .rules_arith import find_by_shape

PANIC = ("panic", "panic")

class Fx(object):
    """per-run context: facts, role-identified helpers, tables"""
    def __init__(self, f, rep):
        self.f = f; self.rep = rep
        self.fts = [b.ident() for b in find_by_shape(f, 2, refs.FTS)]
        self.r3 = [b.ident() for b in find_by_shape(f, 3, refs.R3)]
        self.keep = tuple(self.fts + self.r3)
        self.N = norm.Normalizer("E", opcomm=True)
        self.tables = None

    def by_sig(self, inputs, output, reachable=False):
        out = [b for b in self.f.live if b.kind != "Closure" and b.inputs == inputs and b.output == output and b.reachable == reachable and b.trait is None]
        return out

    def tree(self, ident, body=None, keep=()):
        b = body or self.f.get(ident)
        if b is None:
            return None, None
        info = {}
        t = H.tree_of(self.f, b, "op", keep=self.keep + tuple(keep), inline_private=True, info=info)
        self.iterated = info.get("iterated", [])
        t = idioms.rewrite_tree(t, self.f)
        return vg.map_tree(t, self.N.norm), b

    def n(self, tree):
        return vg.map_tree(tree, lambda x: self.N.norm(x))

    def table_nodes(self):
        """family -> carray node for the constant tables, identified by value (R33)"""
        if self.tables is None:
            self.tables = {}
            newtypes = {F.norm_path(sd["path"]): F.norm_ty(sd["fields"][0]["ty"]) for sd in self.f.structs
                        if len(sd.get("fields", [])) == 1 and sd["fields"][0].get("ty")}
            for c in self.f.consts:
                ty = F.norm_ty(c["ty"])
                ty = newtypes.get(ty, ty)       # a private newtype around the table has the table's bytes
                if ty.startswith("[TwoFloat;") and "hex" in (c.get("val") or {}) and "::tests::" not in c["key"]:
                    w = F.words_from_hex(c["val"]["hex"])
                    his = [oracle.f64_of(x) for x in w[0::2]]
                    fam, k, frac = oracle.infer_family(his)
                    if frac >= 0.9:
                        self.tables[(fam, k)] = (mk("carray", ty, c["val"]["hex"]), c)
                    else:
                        # the same family stored in descending order (and consumed front to back): read it in ascending order
                        fam, k, frac = oracle.infer_family(his[::-1])
                        if frac >= 0.9:
                            hx = c["val"]["hex"]
                            el = [hx[i:i + 32] for i in range(0, len(hx), 32)]
                            rhex = "".join(el[::-1])
                            c2 = dict(c, val=dict(c["val"], hex=rhex), stored_descending=True)
                            self.tables[(fam, k)] = (mk("carray", ty, rhex), c2)
            # a family stored as two parallel f64 tables (high words, low words) read at one index: the table of pairs
            f64s = []
            for c in self.f.consts:
                m = re.match(r"^\[f64; (\d+)\]$", F.norm_ty(c["ty"]))
                if m and "hex" in (c.get("val") or {}) and "::tests::" not in c["key"]:
                    f64s.append((int(m.group(1)), c))
            for n, ca in f64s:
                his = [oracle.f64_of(x) for x in F.words_from_hex(ca["val"]["hex"])]
                if n < 4:
                    continue
                fam, k, frac = oracle.infer_family(his)
                if frac < 0.9 or (fam, k) in self.tables:
                    continue
                for n2, cb in f64s:
                    if n2 != n or cb is ca:
                        continue
                    los = [oracle.f64_of(x) for x in F.words_from_hex(cb["val"]["hex"])]
                    if all(math.isfinite(h) and oracle.valid(h, l) and (l == 0 or abs(l) < abs(h)) for h, l in zip(his, los)):
                        node = norm.zip_carrays(mk("carray", "[f64; %d]" % n, ca["val"]["hex"]), mk("carray", "[f64; %d]" % n, cb["val"]["hex"]))
                        c2 = dict(ca, ty="[TwoFloat; %d]" % n, val=dict(ca["val"], hex=node[2]), path="%s + %s" % (ca["path"], cb["path"]), parallel_words=True)
                        self.tables[(fam, k)] = (node, c2)
                        break
        return self.tables

def horner_chain(x, table, lo, hi):
    """Horner evaluation over table[lo..hi] exactly as the crate's `polynomial!` does it:
    acc = c[hi-1]; acc = x*acc + c[i] for i = hi-2 .. lo (TwoFloat arithmetic)"""
    w = F.words_from_hex(table[2])
    acc = const_tf((w[2 * (hi - 1)], w[2 * (hi - 1) + 1]))
    for i in range(hi - 2, lo - 1, -1):
        acc = x * acc + const_tf((w[2 * i], w[2 * i + 1]))
    return acc

ANY_LEAF = ("ANYLEAF",)
def leaf_eq_any(l1, l2):
    if l1 == ANY_LEAF or l2 == ANY_LEAF:
        return True
    return leaf_eq_nan(l1, l2)

def unlift_option(t):
    """the tree of a helper that returns Option<T> read as the helper returning T: Some(v) -> v; None -> not reached (its callers
    unwrap, so a None is a panic there and the business of the totality rule)"""
    if t[0] == "if":
        return ("if", t[1], unlift_option(t[2]), unlift_option(t[3]))
    if t[0] == "switch":
        return ("switch", t[1], tuple((v, unlift_option(x)) for v, x in t[2]), unlift_option(t[3]))
    if t[0] == "leaf" and tag(t[1]) == "agg" and t[1][1][0] == "adt" and t[1][1][1].endswith("Option"):
        if t[1][1][3] == "Some" and len(t[1][2]) == 1:
            return ("leaf", t[1][2][0], t[2])
        if t[1][1][3] == "None":
            return ("unreachable",)
    return t

def check_ref(fx, rule, ident, ref, what, body=None, keep=(), inst=None, key=None, alt=(), unlift=False, odd_tab=None):
    rep = fx.rep
    inst = inst or ident
    try:
        t, b = fx.tree(ident, body, keep)
        if unlift and t is not None:
            t = vg.map_tree(unlift_option(t), fx.N.norm)
    except vg.Unsupported as u:
        rep.fail(rule, inst, "unsupported:" + ident, "cannot evaluate %s: %s" % (ident, u)); return False
    if t is None:
        rep.fail(rule, inst, "anchor-lost:" + ident, "%s not found (reason=anchor-lost)" % ident); return False
    if odd_tab is not None and callable(ref):
        # the odd kernel of this function may be evaluated in any of the accepted orders: take the one the code uses
        for v_ in range(N_ODD_VARIANTS):
            ODD_VARIANT[odd_tab] = v_
            try:
                r_ = ref(t)
                cands = [r_] + [a_() if callable(a_) else a_ for a_ in alt]
                if any(D.equivalent(t, fx.n(c_), leaf_eq_any) is None for c_ in cands):
                    break
            except RuntimeError:
                pass
        else:
            ODD_VARIANT[odd_tab] = 0
        alt = tuple(a_() if callable(a_) else a_ for a_ in alt)
    if callable(ref):
        ref = ref(t)
        if ref is None:
            return False
        if isinstance(ref, tuple) and len(ref) == 2 and isinstance(ref[1], list):
            ref, more = ref
            alt = tuple(alt) + tuple(more)
    ref = fx.n(ref)
    # Where the code panics is the business of the property's totality rule (every reachable panic site has to be discharged
    # there), and the arms on which a reference form panics are regions its reviewed argument shows unreachable from the public
    # functions: the form rule compares the values returned on the paths on which both return.
    from .rules_total import OWN_TOTALITY
    wild = rep.prop in OWN_TOTALITY
    def code_panics_free(eq):
        return (lambda l1, l2: True if (wild and ((l1 and l1[0] == "panic") or (l2 and l2[0] == "panic"))) else eq(l1, l2))
    try:
        m = D.equivalent(t, ref, code_panics_free(leaf_eq_nan))
        # reviewed alternative forms (a guard the present code does not have); ANY_LEAF matches whatever the guard returns
        for a_ in alt:
            if m is None:
                break
            if D.equivalent(t, fx.n(a_), code_panics_free(leaf_eq_any)) is None:
                m = None
    except RuntimeError as e:
        rep.fail(rule, inst, (key or "form:" + ident) + ":budget", "comparison budget exceeded for %s" % ident, where=H.where(b)); return False
    if m is None:
        rep.ok(rule, inst, detail=what)
        return True
    rep.fail(rule, inst, key or ("form:" + ident), "%s deviates from its reference form (%s): %s" % (ident, what, m.describe()[:900]), where=H.where(b),
             data={"tree": vg.show(t)[:4000]})
    return False

def consts_compared_with(t, operand, ops=("lt", "le", "gt", "ge", "eq")):
    """{op: [const values]} for primitive comparisons `operand op const` in the tree's conditions"""
    out = {}
    def visit(c):
        for n in all_nodes(c):
            if tag(n) == "cmp" and n[2] == "f64":
                if n[3] is operand and tag(n[4]) == "const":
                    out.setdefault(n[1], []).append(D.f64v(n[4]))
    def walk(tr):
        if tr[0] == "if":
            visit(tr[1]); walk(tr[2]); walk(tr[3])
        elif tr[0] == "switch":
            visit(tr[1])
            for _, x in tr[2]:
                walk(x)
            walk(tr[3])
    walk(t)
    return out

def tcmp_consts(t, operand):
    """{method: [const]} for PartialOrd::<m><TwoFloat,f64>(operand, const) conditions"""
    out = {}
    def visit(c):
        for n in all_nodes(c):
            if tag(n) == "call" and n[1].startswith("core::cmp::PartialOrd::") and len(n) == 4 and n[2] is operand and tag(n[3]) == "const":
                m = n[1][len("core::cmp::PartialOrd::"):].split("<")[0]
                out.setdefault(m, []).append(D.f64v(n[3]))
    def walk(tr):
        if tr[0] == "if":
            visit(tr[1]); walk(tr[2]); walk(tr[3])
        elif tr[0] == "switch":
            visit(tr[1])
            for _, x in tr[2]:
                walk(x)
            walk(tr[3])
    walk(t)
    return out

ZERO_TF = TFv(0.0, 0.0)
ONE_TF = TFv(1.0, 0.0)

# ====================================================================== C13

def sqrt_ref():
    s = param(0)
    x = 1.0 / libm("sqrt", s.hi)
    y = s.hi * x
    yy = V(mk("call", "TwoFloat::new_mul", y.t, y.t), "TF")
    corr = (s - yy).hi * (x * 0.5)
    res = RETV(V(mk("call", "TwoFloat::new_add", y.t, corr.t), "TF"))
    return IF(fcmp("lt", s.hi, 0.0), NAN_LEAF,
              IF(fcmp("eq", s.hi, 0.0),
                 IF(fcmp("lt", s.lo, 0.0), NAN_LEAF, IF(fcmp("eq", s.lo, 0.0), RETV(ZERO_TF), res)),
                 res))

def cbrt_ref(k):
    s = param(0)
    x = TFv(libm("cbrt", s.hi), 0.0)
    for _ in range(k):
        x2 = x * x
        x = x - (x2 * x - s) / (3.0 * x2)
    return IF(fcmp("eq", s.hi, 0.0), RETV(s), RETV(x))

def check_C13(ctx, rep):
    f = ctx.facts("A")
    fx = Fx(f, rep)
    ok_sqrt = check_ref(fx, "R31", "TwoFloat::sqrt", sqrt_ref(), "negative -> NaN; zero -> 0; else Karp-Markstein: x=1/sqrt(hi); y=hi*x; new_add(y, (self - new_mul(y,y)).hi * (x*0.5))")
    s, o = param(0), param(1)
    ok_hypot = check_ref(fx, "R31", "TwoFloat::hypot", RETV((s * s + o * o).sqrt()), "sqrt(x*x + y*y)")
    check_root_errors(fx, ok_sqrt, ok_hypot)
    # cbrt: zero guard, then k >= 1 Newton steps x - (x^2*x - a)/(3*x^2) from the f64 estimate
    try:
        t, b = fx.tree("TwoFloat::cbrt")
    except vg.Unsupported as u:
        t, b = None, None
    if t is None:
        rep.fail("R31", "TwoFloat::cbrt", "anchor-lost:cbrt", "TwoFloat::cbrt not found or not analysable (reason=anchor-lost)")
    else:
        ok = None
        for k in (2, 1, 3, 4):
            if D.equivalent(t, fx.n(cbrt_ref(k)), leaf_eq_nan) is None:
                ok = k; break
        rep.check(ok is not None, "R31", "TwoFloat::cbrt", "form:cbrt",
                  "cbrt is not (hi == 0 -> self; else k>=1 Newton steps x - (x^2*x - a)/(3*x^2) from libm::cbrt(hi)): %s" % vg.show(t)[:600],
                  where=H.where(b), detail="zero guard + %s Newton steps" % ok)
        # R32 exact zero analysis: with a zero argument no division by a definite zero is reached
        check_zero_division(fx, "TwoFloat::cbrt", t, b)
        if ok is not None:
            check_cbrt_error(fx, ok)
    check_powi(fx)
    if check_powi_loop(fx):
        check_powi_error(fx)
    from . import rules_total
    rules_total.totality(rep, f, "R30", rules_total.entries_C13(), "powi / Pow / roots", min_sites=0)
    from .rules_c10 import check_delegation_subset
    check_delegation_subset(rep, f, {"sqrt", "cbrt", "hypot", "powi", "recip"})
    check_defaults_subset(rep, f, {"sqrt", "cbrt", "hypot", "powi", "recip"})
    from .rules_c10 import check_pow
    check_pow(rep, f, ["i8", "i16", "i32", "u8", "u16"], rule_d="R16s", rule_s="R16s")      # the integer Pow impls are entry points of powi
    rep.floor("R31", len([o2 for o2 in rep.obl if o2["rule"] == "R31"]), 3, "root functions")

def check_defaults_subset(rep, f, names, rule="R16ds"):
    """a num_traits Float / FloatCore method of this family that is NOT overridden runs the trait's generic default, not the
    inherent function the property is about (shared with C10's R16d)"""
    for im in f.impls:
        tr = F.norm_path(im["trait"])
        if not tr.startswith("num_traits") or F.norm_ty(im["self_ty"]) != TF or tr.split("::")[-1] not in ("Float", "FloatCore", "Signed"):
            continue
        for m_ in im.get("inherited_defaults", []):
            if m_ in names and f.get("TwoFloat::" + m_) is not None:
                rep.fail(rule, "%s::%s (default body)" % (tr, m_), "unreviewed-default:%s::%s" % (tr, m_),
                         "trait default %s::%s is not overridden although TwoFloat::%s exists: the trait route runs num_traits' generic body" % (tr, m_, m_))
    rep.ok(rule, "trait routes of %s are overridden" % sorted(names), detail="no inherited num_traits default among them", nontrivial=False)

def check_root_errors(fx, ok_sqrt, ok_hypot):
    """R31e: relative error of the Karp-Markstein square root (DESIGN B.3) and of hypot, in exact rationals.
    a = hi + lo = hi(1+t), s = sqrt(a);  y = s(1+d1),  x = (1/s)(1+d2)  from three correctly rounded f64 operations;
    y*y exact (2Prod), a - y^2 within Alg. 6, its high word within u, one f64 product, the final 2Sum exact:
        result / s - 1  =  -d1^2/2 - (d1 + d1^2/2) eta,      1 + eta = (1+e3)(1+e4)(1+e5)(1+d2)."""
    from . import errbound as EB
    rep = fx.rep; Fr = _Fr
    u = EB.U
    if not ok_sqrt:
        return
    sq_lo = 1 - u / 2 - u * u / 2          # <= sqrt(1 - u)
    sq_hi = 1 + u / 2                      # >= sqrt(1 + u)
    d1 = max((1 + u) ** 2 / ((1 - u) * sq_lo) - 1, 1 - (1 - u) ** 2 / ((1 + u) * sq_hi))
    d2 = max(sq_hi * (1 + u) / (1 - u) - 1, 1 - sq_lo * (1 - u) / (1 + u))
    eta = (1 + EB.E_ADD_DD) * (1 / (1 - u)) * (1 + u) * (1 + d2) - 1
    rel = d1 * d1 / 2 + (d1 + d1 * d1 / 2) * eta
    L = EB.log2f
    u2 = u * u
    rep.check(rel <= 32 * u2, "R31e", "sqrt relative error for hi in [2^-900, 2^900]", "errbound:sqrt",
              "the Karp-Markstein step is bounded only by %.2f u^2, the property needs 32 u^2" % float(rel / u2),
              detail={"bound": "%.2f * 2^-106" % float(rel / u2), "d1 (y vs sqrt a)": "%.3f u" % float(d1 / u), "d2 (x vs 1/sqrt a)": "%.3f u" % float(d2 / u), "eta": "%.3f u" % float(eta / u),
                      "lemmas": "libm::sqrt, 1/q and hi*x correctly rounded; 2Prod/2Sum exact and Alg. 6 within 3u^2+13u^3 (C02, C03 conformance); no under/overflow on the stated range"})
    if ok_hypot:
        eps = (1 + EB.E_MUL_DD) * (1 + EB.E_ADD_DD) - 1          # x*x + y*y: squares within 5u^2, a sum of positive terms
        tot = (1 + rel) * (1 + eps / 2 + eps * eps) - 1
        rep.check(tot <= 48 * u2, "R31e", "hypot relative error for high words in [2^-400, 2^400]", "errbound:hypot",
                  "hypot is bounded only by %.2f u^2, the property needs 48 u^2" % float(tot / u2), detail="%.2f * 2^-106" % float(tot / u2))

def check_cbrt_error(fx, steps):
    """R31e: k Newton steps x' = x - (x^3 - a)/(3 x^2) in double-double arithmetic from an estimate within 2^-30 (DESIGN B.4).
    With x = c(1+e), c = cbrt(a):  x'/c = [g(e) - (d/c) kappa - (1+e) e1 (1+kappa)/3](1+e5),
    g(e) - 1 = e^2 (1 + 2e/3)/(1+e)^2  (exact Newton),  d/c = ((1+e)^3 - 1)/(3(1+e)^2)."""
    from . import errbound as EB
    rep = fx.rep
    u2 = EB.U * EB.U
    e1 = (1 + EB.E_MUL_DD) ** 2 - 1                               # x2 = x*x, x2*x
    e3 = (1 + EB.E_MUL_DD) * (1 + EB.E_MUL_FP) - 1                # 3.0 * x2
    kappa = (1 + EB.E_ADD_DD) * (1 + EB.E_DIV_DD) / (1 - e3) - 1  # subtraction, long division (C05, rule R10e), denominator
    e5 = EB.E_ADD_DD                                              # x - delta
    e = _Fr(1, 2 ** 30)                                           # libm::cbrt(hi) vs cbrt(hi + lo): a very weak assumption suffices
    hist = []
    for _ in range(steps):
        g = e * e * (1 + 2 * e / 3) / (1 - e) ** 2
        dl = e * (1 + e + e * e / 3) / (1 - e) ** 2
        e = (g + dl * kappa + (1 + e) * e1 * (1 + kappa) / 3) * (1 + e5) + e5
        hist.append("%.3g u^2" % float(e / u2))
    rep.check(e <= 16 * u2, "R31e", "cbrt relative error for hi in [2^-900, 2^900]", "errbound:cbrt",
              "%d Newton step(s) from an estimate within 2^-30 leave %.3g u^2, the property needs 16 u^2" % (steps, float(e / u2)),
              detail={"after each step": hist, "lemmas": "libm::cbrt within 2^-30 relative; operator bounds (C03, C04), long division within 16u^2 (C05, rule R10e)"})

def check_powi_error(fx):
    """R26e: binary exponentiation (the loop form R26 established) multiplies n - 1 times in effect: value_j = x^(2^j)(1+e)^(2^j - 1),
    the first `result *= value` is 1 * value (exact, R8x), so x^n carries (1+e)^(n-1), e = 5u^2 (Alg. 12); a negative exponent adds the
    reciprocal (long division, 16u^2).  (1+e)^m <= 1/(1 - m e)."""
    from . import errbound as EB
    rep = fx.rep
    u2 = EB.U * EB.U
    bad = []
    ns = sorted(set(list(range(2, 66)) + [2 ** k + d for k in range(6, 32) for d in (-1, 0, 1) if 2 ** k + d <= 2 ** 31]))
    for n in ns:
        m = n - 1
        up = 1 / (1 - m * EB.E_MUL_DD) * (1 + EB.E_DIV_DD) - 1
        if up > (6 * n + 16) * u2:
            bad.append(n)
    rep.check(not bad, "R26e", "powi relative error (6|n| + 16) u^2 for 2 <= |n| <= 2^31", "errbound:powi",
              "the square-and-multiply error bound (1+5u^2)^(n-1)(1+16u^2) - 1 exceeds (6n+16) u^2 at n = %s" % bad[:5],
              detail="%d exponents checked incl. 2^k, 2^k +- 1 up to 2^31; the bound is increasing in n with slope 5u^2(1+o(1)) < 6u^2" % len(ns))

def check_zero_division(fx, ident, t, b):
    """R32: three-valued must-analysis {Z, NZ, T} with the argument an exact zero."""
    rep = fx.rep
    memo = {}
    def z(n):
        if n in memo:
            return memo[n]
        r = "T"
        tg = tag(n)
        if tg == "param":
            r = "Z"
        elif tg == "const" and n[1] == "f64":
            v = D.f64v(n)
            r = "Z" if v == 0 else ("NZ" if v == v else "T")
        elif tg == "agg" and len(n[2]) == 2:
            a, c = z(n[2][0]), z(n[2][1])
            r = "Z" if a == "Z" and c == "Z" else ("NZ" if a == "NZ" else "T")
        elif tg == "field":
            r = z(n[1]) if z(n[1]) == "Z" else "T"
        elif tg == "call":
            nm = n[1]
            if nm in ("libm::cbrt", "libm::sqrt", "libm::fabs") and len(n) == 3:
                r = z(n[2])
            elif nm.startswith("opc:mul") or nm.startswith("op:mul"):
                a, c = z(n[2]), z(n[3])
                r = "Z" if "Z" in (a, c) else ("NZ" if a == c == "NZ" else "T")
            elif nm.startswith("opc:add") or nm.startswith("op:add") or nm.startswith("op:sub"):
                a, c = z(n[2]), z(n[3])
                r = "Z" if a == c == "Z" else ("NZ" if sorted((a, c)) == ["NZ", "Z"] else "T")
            elif nm.startswith("op:neg"):
                r = z(n[2])
            elif nm.startswith("op:div"):
                a, c = z(n[2]), z(n[3])
                r = "Z" if a == "Z" and c == "NZ" else "T"
        elif tg == "f":
            if n[1] in ("mul",):
                a, c = z(n[2]), z(n[3]); r = "Z" if "Z" in (a, c) else "T"
        memo[n] = r
        return r
    bad = []
    # follow the tree with hi == 0 (and lo == 0) known
    def feasible_leaves(tr):
        if tr[0] == "if":
            c = tr[1]
            if tag(c) == "cmp" and c[1] == "eq" and tag(c[3]) == "field" and c[3][1] is P(0) and tag(c[4]) == "const" and D.f64v(c[4]) == 0:
                yield from feasible_leaves(tr[2]); return
            yield from feasible_leaves(tr[2]); yield from feasible_leaves(tr[3])
        elif tr[0] == "switch":
            for _, x in tr[2]:
                yield from feasible_leaves(x)
            yield from feasible_leaves(tr[3])
        else:
            yield tr
    n_div = 0
    for leaf in feasible_leaves(t):
        if leaf[0] != "leaf":
            continue
        for n in all_nodes(leaf[1]):
            if tag(n) == "call" and n[1].startswith("op:div") and len(n) == 4:
                n_div += 1
                if z(n[3]) == "Z":
                    bad.append(n)
    rep.check(not bad, "R32", ident + " at exact zero", "zero-division:" + ident,
              "%s divides by a value that is definitely zero when its argument is zero (0/0 = NaN, but the property demands f(0) = 0): %s" % (ident, vg.show(bad[0])[:300] if bad else ""),
              where=H.where(b), detail="%d divisions examined on paths feasible for a zero argument" % n_div)

def check_powi(fx):
    """R26: |n| is taken without overflow (no i32::abs anywhere below powi)."""
    rep = fx.rep; f = fx.f
    b = f.get("TwoFloat::powi")
    if b is None:
        rep.fail("R26", "TwoFloat::powi", "anchor-lost:powi", "TwoFloat::powi not found (reason=anchor-lost)"); return
    calls = []
    for blk in b.mir["blocks"]:
        t = blk["t"]
        if t["k"] == "call" and "f" in t:
            r = t["f"].get("res") or t["f"]
            calls.append(F.norm_path(r["def"]))
    absent = [c for c in calls if c in ("core::num::<impl i32>::abs",)]
    rep.check(not absent, "R26", "powi exponent magnitude without overflow", "powi-abs", "powi takes |n| with i32::abs, which overflows for i32::MIN", where=H.where(b),
              detail="uses %s" % [c for c in calls if "abs" in c])

# ====================================================================== C14

def find_table(fx, fam, k, n):
    for (ff, kk), (node, c) in fx.table_nodes().items():
        if ff == fam and kk == k and idioms.array_len(node) == n:
            return node
    for (ff, kk), (node, c) in fx.table_nodes().items():
        if ff == fam:
            return node
    return None

def expm1_quarter_ref(fx, z, frac):
    n = libm("round", 128.0 * z.hi)
    x0 = n / 128.0
    y = z - x0
    idx = mk("i", "add", "i32", cast("FloatToInt", "f64", "i32", libm("trunc", n)).t, mk("const", "i32", 32))
    tab = find_table(fx, "exp((i-k)/128)-1", 32, 65)
    e0 = V(mk("index", tab, mk("cast", "IntToInt", "i32", "usize", idx)), "TF")
    exp_x0 = e0 + 1.0
    hz = horner_chain(y, frac, 2, 15)
    p = y * (y * hz + 1.0)
    res = e0 + exp_x0 * p
    ni = cast("FloatToInt", "f64", "i32", libm("trunc", n)).t
    return res, ni

def check_C14(ctx, rep):
    f = ctx.facts("A")
    fx = Fx(f, rep)
    check_tables(fx)
    frac = find_table(fx, "1/i!", 0, 21)
    if frac is None or find_table(fx, "exp((i-k)/128)-1", 32, 65) is None:
        return
    pol = vg.Policy(f, "op")
    # (the helper may also hand back an Option for its callers to unwrap: `None` where it used to assert)
    eh_all = [b for b in fx.by_sig(["i32"], TF) + fx.by_sig(["i32"], "core::option::Option<TwoFloat>") if not b.reachable]
    eh = [b for b in eh_all if pol.has_loop_or_recursion(b)]             # the table function: self-recursive ...
    if not eh:
        # ... or with the recursion unfolded: the private fn(i32) -> TwoFloat that indexes the exp(16 n) table
        t16_ = find_table(fx, "exp(16(i+k))", 1, 44)
        for b_ in eh_all:
            try:
                tb_ = H.tree_of(f, b_, "op")
            except vg.Unsupported:
                continue
            nodes_ = set()
            for _, lf in vg.leaves(tb_):
                if lf[0] == "leaf":
                    nodes_ |= set(all_nodes(lf[1]))
            if t16_ is not None and t16_ in nodes_:
                eh.append(b_)
    # the exponent may be carried in any signed integer type that holds -1074..1023
    EXP_TYS = ("i32", "i64", "i16", "isize", "i128")
    CURRIED = []
    mp = [(b, ity) for ity in EXP_TYS for b in fx.by_sig(["f64", ity], "f64") if pol.has_loop_or_recursion(b)]
    if not mp:
        # the scaling helper may also be a local closure of exp2: any looping closure taking (f64, int)
        for b in f.live:
            sig = [F.norm_ty(l["ty"]) for l in b.mir["locals"][2:1 + b.mir["arg_count"]]]
            if b.kind == "Closure" and pol.has_loop_or_recursion(b) and len(sig) == 2 and sig[0] == "f64" and sig[1] in EXP_TYS:
                mp.append((b, sig[1]))
        if not mp:
            # curried: a looping closure taking the word, returned by a private fn(<signed int>) that captures the exponent
            for b in f.live:
                sig = [F.norm_ty(l["ty"]) for l in b.mir["locals"][2:1 + b.mir["arg_count"]]]
                if b.kind == "Closure" and pol.has_loop_or_recursion(b) and sig == ["f64"]:
                    par = [p_ for p_ in f.live if p_.kind != "Closure" and b.key.startswith(p_.key + "::") and not p_.reachable
                           and len(p_.inputs) == 1 and p_.inputs[0] in EXP_TYS]
                    if par:
                        mp.append((b, par[0].inputs[0])); CURRIED.append(True)
    MP_TY = mp[0][1] if mp else "i32"
    mp = [b for b, _ in mp]
    rep.check(len(eh) == 1, "R35", "exp(n/2) table function (role-identified)", "anchor-lost:exp_half", "expected exactly one private fn(i32) -> TwoFloat, found %s (reason=anchor-lost)" % [b.ident() for b in eh], nontrivial=False)
    rep.check(len(mp) == 1, "R35", "power-of-two scaling function (role-identified)", "anchor-lost:mul_pow2", "expected exactly one private looping fn(f64, <signed int>) -> f64, found %s (reason=anchor-lost)" % [b.ident() for b in mp], nontrivial=False)
    if len(eh) != 1 or len(mp) != 1:
        return
    EH = eh[0].ident(); MP = mp[0].ident()
    eh_lifted = eh[0].output != TF
    if eh_lifted:
        fx.N.lifted.add(EH); fx.N.memo = {}
    # ---- exp
    def exp_ref(t):
        s = param(0)
        cs = consts_compared_with(t, s.hi.t)
        # `hi <= L` or its complement `hi > L` (`!(hi > L)`; NaN is dealt with by the form comparison), likewise `hi >= U` / `hi < U`
        negs = [c_ for o_ in ("le", "gt") for c_ in cs.get(o_, []) if c_ < 0]
        poss = [c_ for o_ in ("ge", "lt") for c_ in cs.get(o_, []) if c_ > 0]
        L = negs[0] if negs else None; U = poss[0] if poss else None
        okL = L is not None and -750.0 <= L < -600.0
        okU = U is not None and 700.0 < U <= 710.0
        rep.check(okL, "R35", "exp underflow switch", "exp-lower", "exp returns 0 for hi <= %r; the property needs 0 at and below -750 and accuracy down to -600" % L, detail=L)
        rep.check(okU, "R35", "exp overflow switch", "exp-upper", "exp saturates for hi >= %r; the property needs a non-finite result at and above 710 and accuracy up to 700" % U, detail=U)
        if not (okL and okU):
            return None
        y = libm("round", 2.0 * s.hi)
        z = s - y / 2.0
        q, ni = expm1_quarter_ref(fx, z, frac)
        ehalf = V(mk("call", EH, cast("FloatToInt", "f64", "i32", y).t), "TF")
        res = RETV((q + 1.0) * ehalf)
        bound = consts_compared_with(t, fx.N.norm(libm("fabs", z.hi).t)).get("lt", [None])[0]
        okB = bound is not None and 0.25 < bound <= 0.25 + 1.0 / 256.0
        rep.check(okB, "R35", "reduced-argument assertion window", "expm1-quarter-bound",
                  "expm1_quarter asserts |z.hi| < %r; the reduction guarantees only |z.hi| <= 1/4 + ulp and the table needs |z.hi| < 1/4 + 1/256" % bound, detail=bound)
        if not okB:
            return None
        guarded = IF(fcmp("lt", libm("fabs", z.hi), bound),
                     IF(mk("cmp", "le", "i32", mk("call", "core::num::<impl i32>::abs", ni), mk("const", "i32", 32)), res, PANIC), PANIC)
        return IF(fcmp("le", s.hi, L), RETV(ZERO_TF),
                  IF(fcmp("ge", s.hi, U), RETV(TFv(math.inf, 0.0)),
                     IF(fcmp("eq", s.hi, 0.0), RETV(ONE_TF),
                        IF(f64m("is_nan", s.hi, "bool").t, NAN_LEAF, guarded))))
    check_ref(fx, "R35", "TwoFloat::exp", exp_ref,
              "hi<=L -> 0; hi>=U -> {inf,0}; hi==0 -> 1; NaN -> NAN; else y=round(2hi), z=self-y/2, (expm1_quarter(z)+1)*exp_half(y) with expm1_quarter = table[n+32] + (table+1)*y(1+y*Taylor[2..15])",
              keep=(EH,))
    # ---- exp_half
    def exp_half_ref(t):
        n = mk("param", 0)
        t16 = find_table(fx, "exp(16(i+k))", 1, 44); th = find_table(fx, "exp((i+k)/2)", 1, 31)
        if t16 is None or th is None:
            rep.fail("R35", "exp_half tables", "anchor-lost:exp-tables", "exp(16 n) / exp(n/2) tables not identified (reason=anchor-lost)"); return None
        lim = None
        for nn in all_nodes(t[1]) if t[0] == "if" else []:
            # `n < L` (assert!(n < L)) or its complement `n >= L` (if n >= L { return None }), in either operand order
            if tag(nn) == "cmp" and nn[2] == "i32":
                if nn[3] is n and tag(nn[4]) == "const" and nn[1] in ("lt", "ge", "le", "gt"):
                    c_ = vg.to_signed("i32", nn[4][2]); lim = c_ if nn[1] in ("lt", "ge") else c_ + 1
                elif nn[4] is n and tag(nn[3]) == "const" and nn[1] in ("gt", "le", "ge", "lt"):
                    c_ = vg.to_signed("i32", nn[3][2]); lim = c_ if nn[1] in ("gt", "le") else c_ + 1
        n16 = idioms.array_len(t16); nh = idioms.array_len(th)
        ok = lim is not None and lim <= 32 * (n16 + 1) and nh >= 31
        rep.check(ok, "R35", "exp_half index limit", "exp-half-limit", "exp_half accepts n < %r but its tables cover n < %d" % (lim, 32 * (n16 + 1)), detail={"limit": lim, "exp16_entries": n16, "half_entries": nh})
        if not ok:
            return None
        a = mk("cast", "IntToInt", "i32", "usize", mk("i", "div", "i32", n, mk("const", "i32", 32)))
        b = mk("cast", "IntToInt", "i32", "usize", mk("i", "rem", "i32", n, mk("const", "i32", 32)))
        one = mk("const", "usize", 1); zero = mk("const", "usize", 0)
        e16 = V(mk("index", t16, mk("i", "sub", "usize", a, one)), "TF")
        eh2 = V(mk("index", th, mk("i", "sub", "usize", b, one)), "TF")
        def body_of(k, wrap=lambda v: v):
            a = mk("cast", "IntToInt", "i32", "usize", mk("i", "div", "i32", k, mk("const", "i32", 32)))
            b = mk("cast", "IntToInt", "i32", "usize", mk("i", "rem", "i32", k, mk("const", "i32", 32)))
            e16 = V(mk("index", t16, mk("i", "sub", "usize", a, one)), "TF")
            eh2 = V(mk("index", th, mk("i", "sub", "usize", b, one)), "TF")
            return IF(mk("cmp", "gt", "usize", a, zero), IF(mk("cmp", "gt", "usize", b, zero), RETV(wrap(e16 * eh2)), RETV(wrap(e16))),
                      IF(mk("cmp", "gt", "usize", b, zero), RETV(wrap(eh2)), RETV(wrap(ONE_TF))))
        body = body_of(n)
        negn = mk("i", "neg", "i32", n)
        limc = mk("const", "i32", lim)
        rec = RETV(1.0 / V(mk("call", EH, negn), "TF"))
        isneg = mk("call", "core::num::<impl i32>::is_negative", n)
        main = IF(mk("cmp", "lt", "i32", n, limc), IF(isneg, rec, body), PANIC)
        # the same function with the (depth-one) recursion unfolded: look up -n, re-assert, invert at the end
        flat = IF(mk("cmp", "lt", "i32", n, limc),
                  IF(isneg, IF(mk("cmp", "lt", "i32", negn, limc), body_of(negn, lambda v: 1.0 / v), PANIC), body), PANIC)
        return main, [flat]
    check_ref(fx, "R35", EH, exp_half_ref, "n<limit; n<0 -> 1/exp_half(-n); (a,b)=(n/32,n%32); exp16[a-1]*exphalf[b-1] with empty factors dropped", body=eh[0], inst="exp_half (exp(n/2) from tables)",
              unlift=eh_lifted)
    check_exp_m1(fx, frac)
    # ---- exp_m1 (see check_exp_m1)
    def exp_m1_ref_unused(t):
        s = param(0)
        ln2 = oracle.dd_named("LN_2"); l32 = oracle.dd_named("ln(3/2)")
        LN2 = TFv(ln2[0], ln2[1]); L32 = TFv(l32[0], l32[1])
        x = s.abs()
        r = x * horner_chain(x, frac, 2, 15) + 1.0
        big = RETV(s.exp() - 1.0)
        return IF(tcmp("lt", s, -LN2), big, IF(tcmp("gt", s, L32), big, IF(tcmp("lt", s, 0.0), RETV(s * r * s.exp()), RETV(s * r))))
    # ---- exp2
    def exp2_ref(t):
        s = param(0)
        cs = tcmp_consts(t, s.t)
        L = (cs.get("lt") or [None])[0]; U = (cs.get("ge") or [None])[0]
        # exact points: exp2(k) = 2^k for every integer k in [-1022, 1022], so the switches lie outside that range
        okL = L is not None and -1080.0 < L <= -1022.0
        okU = U is not None and 1022.0 < U <= 1024.0
        rep.check(okL, "R35", "exp2 underflow switch", "exp2-lower", "exp2 returns 0 below %r; the property needs 0 at and below -1080, accuracy down to -900 and exp2(-1022) = 2^-1022 exactly" % L, detail=L)
        rep.check(okU, "R35", "exp2 overflow switch", "exp2-upper", "exp2 saturates from %r; the property needs non-finite at and above 1024, accuracy up to 1000 and exp2(1022) = 2^1022 exactly" % U, detail=U)
        if not (okL and okU):
            return None
        ln2 = oracle.dd_named("LN_2"); LN2 = TFv(ln2[0], ln2[1])
        k = libm("round", s.hi)
        r = (s - k) * LN2 / 512.0
        r1 = horner_chain(r, frac, 0, 12)
        for _ in range(9):
            r1 = r1 * r1
        ki = cast("FloatToInt", "f64", MP_TY, k).t
        if not fx.fts:
            rep.fail("R35", "exp2 renormalisation", "anchor-lost:fast2sum", "no Fast2Sum primitive (reason=anchor-lost)"); return None
        if mp[0].kind == "Closure" and CURRIED:
            mpc = lambda w: mk("call", MP, mk("agg", ("closure", mp[0].key), (ki,)), mk("agg", ("tuple",), (w,)))
        elif mp[0].kind == "Closure":
            envs = [n[2] for n in all_nodes(tuple(l[1] for _, l in vg.leaves(t) if l[0] == "leaf")) if tag(n) == "call" and n[1] == MP and len(n) == 4]
            env = envs[0] if envs else mk("agg", ("closure", mp[0].key), ())
            mpc = lambda w: mk("call", MP, env, mk("agg", ("tuple",), (w, ki)))
        else:
            mpc = lambda w: mk("call", MP, w, ki)
        scaled = V(mk("call", fx.fts[0], mpc(r1.hi.t), mpc(r1.lo.t)), "TF")
        return IF(tcmp("lt", s, L), RETV(ZERO_TF), IF(tcmp("ge", s, U), RETV(TFv(math.inf, math.inf)),
                  IF(fcmp("eq", k, 0.0), RETV(r1), RETV(scaled))))
    check_ref(fx, "R35", "TwoFloat::exp2", exp2_ref, "x<L -> 0; x>=U -> {inf,inf}; k=round(hi); r=(x-k)*dd(ln2)/512; Taylor[0..12](r) squared nine times; both words scaled by 2^k and renormalised with Fast2Sum", keep=(MP,))
    # ---- powf
    def powf_ref(t):
        s, y = param(0), param(1)
        absr = (y * s.abs().ln()).exp()
        m0 = lambda w: V(mk("field", libm("modf", w).t, 0), "f64")
        par = lambda w: IF(fcmp("eq", libm("trunc", w) % 2.0, 0.0), RETV(absr), RETV(-absr))
        neg = IF(fcmp("ne", m0(y.hi), 0.0), NAN_LEAF, IF(fcmp("ne", m0(y.lo), 0.0), NAN_LEAF,
                 IF(fcmp("eq", libm("trunc", y.lo), 0.0), par(y.hi), par(y.lo))))
        return IF(teq(s, 0.0), IF(teq(y, 0.0), NAN_LEAF, RETV(ZERO_TF)),
                  IF(teq(y, 0.0), RETV(ONE_TF), IF(s.is_sign_positive(), RETV((y * s.ln()).exp()), neg)))
    check_ref(fx, "R35", "TwoFloat::powf", powf_ref, "0^0 -> NaN; 0^y -> 0; x^0 -> 1; x>0 -> exp(y ln x); x<0: non-integer y -> NaN, else +-exp(y ln|x|) by the parity of the truncated low-order word")
    # ---- mul_pow2 structural rule on MIR (loop)
    check_mul_pow2(fx, mp[0], curried=bool(CURRIED), ity=MP_TY)
    check_series(fx, frac)
    from .rules_c10 import check_delegation_subset
    check_delegation_subset(rep, f, {"exp", "exp2", "exp_m1", "powf"})
    from .rules_c10 import check_pow
    check_pow(rep, f, ["f64", TF], rule_d="R16s", rule_s="R16s")      # Pow<f64> / Pow<TwoFloat> are entry points of powf
    from . import rules_total
    rules_total.totality(rep, f, "R36", rules_total.entries_C14(), "exp family", min_sites=0)

def check_exp_m1(fx, frac, rule="R35"):
    def exp_m1_ref(t):
        s = param(0)
        ln2 = oracle.dd_named("LN_2"); l32 = oracle.dd_named("ln(3/2)")
        LN2 = TFv(ln2[0], ln2[1]); L32 = TFv(l32[0], l32[1])
        x = s.abs()
        r = x * horner_chain(x, frac, 2, 15) + 1.0
        big = RETV(s.exp() - 1.0)
        return IF(tcmp("lt", s, -LN2), big, IF(tcmp("gt", s, L32), big, IF(tcmp("lt", s, 0.0), RETV(s * r * s.exp()), RETV(s * r))))
    check_ref(fx, rule, "TwoFloat::exp_m1", exp_m1_ref, "outside [-dd(ln 2), dd(ln 3/2)] -> exp(x)-1; inside: x*(1+|x|*Taylor[2..15](|x|)), times exp(x) for x<0")

def check_mul_pow2(fx, b, curried=False, ity="i32"):
    """R35: the scaling helper multiplies by 2^y.  The body is evaluated with the exponent fixed to each y of a finite set (every
    integer of -1074..=1023 in the thorough tier, the breakpoints and a grid in the quick tier) and the word symbolic: what comes
    out has to be the word times f64 constants that are powers of two whose exponents add up to y, and a single factor (or
    exact unit factors around it) where 2^y is representable, so that the one multiplication rounds once.  (libm's ldexp /
    scalbn with that exponent is accepted as the same thing.)"""
    rep = fx.rep; f = fx.f
    if curried or b.kind == "Closure":
        rep.ok("R35", "mul_pow2 scaling (closure form)", detail="read in the context of exp2 (the closure's exponent is exp2's k): the form rule of exp2 keeps it opaque", nontrivial=False)
        return
    full = range(-1074, 1024)
    grid = sorted(set(list(range(-1080, -1015)) + list(range(-70, 70)) + list(range(960, 1030)) + list(range(-1074, 1024, 37))))
    ys = list(full) if rep.tier == "thorough" else [y for y in grid if -1074 <= y <= 1023]
    bad = []
    def pow2_exp(bits):
        e = (bits >> 52) & 0x7ff; m = bits & ((1 << 52) - 1)
        if bits >> 63 or e == 0x7ff:
            return None
        if e == 0:
            return (m.bit_length() - 1 - 1074) if m and m & (m - 1) == 0 else None
        return e - 1023 if m == 0 else None
    x = P(0)
    for y in ys:
        try:
            ex = vg.Exec(f, vg.Policy(f, "prim"), max_nodes=40000)
            t = ex.run_body(b, args=[None, mk("const", ity, vg.from_signed(ity, y))])
        except (vg.Unsupported, RecursionError) as u:
            bad.append((y, "cannot evaluate: %s" % u)); break
        if t[0] != "leaf":
            bad.append((y, "not a straight-line computation for a fixed exponent")); continue
        v = t[1]; exps = []; ok = True
        if tag(v) == "call" and v[1] in ("libm::ldexp", "libm::scalbn") and len(v) == 4 and v[2] is x and tag(v[3]) == "const":
            if vg.to_signed(v[3][1], v[3][2]) != y:
                bad.append((y, "ldexp with another exponent"))
            continue
        while v is not x:
            if tag(v) == "f" and v[1] == "mul" and len(v) == 4 and (tag(v[2]) == "const" or tag(v[3]) == "const"):
                c, v = (v[2], v[3]) if tag(v[2]) == "const" else (v[3], v[2])
                e = pow2_exp(c[2])
                if e is None:
                    ok = False; break
                exps.append(e)
            else:
                ok = False; break
        if not ok:
            bad.append((y, "result is not the word times power-of-two constants: %s" % vg.show(t[1])[:120])); continue
        if sum(exps) != y:
            bad.append((y, "factors 2^%s multiply to 2^%d" % (exps, sum(exps)))); continue
        if len([e for e in exps if e != 0]) > 1:
            bad.append((y, "2^%d is representable but is applied in %d steps %s (an intermediate product can round)" % (y, len(exps), exps)))
    rep.check(not bad, "R35", "mul_pow2 scaling by 2^y", "mul-pow2-scaling",
              "the power-of-two scaling helper is not multiplication by 2^y for y = %s: %s" % (bad[0][0] if bad else "", bad[0][1] if bad else ""), where=H.where(b),
              detail="%d exponents in -1074..=1023 evaluated with the word symbolic: one multiplication by the constant 2^y each" % len(ys))

def check_tables(fx):
    """R33: every entry of every family table is the correctly rounded double-double of g(i)"""
    rep = fx.rep
    tabs = fx.table_nodes()
    want = {("1/i!", 0): 21, ("exp((i-k)/128)-1", 32): 65, ("exp((i+k)/2)", 1): 31, ("exp(16(i+k))", 1): 44}
    for (fam, k), n in want.items():
        hit = [(kk, v) for kk, v in tabs.items() if kk[0] == fam]
        if not hit:
            rep.fail("R33", "table " + fam, "anchor-lost:table:" + fam, "no constant table of family %s found (reason=anchor-lost)" % fam); continue
        (ff, k2), (node, c) = hit[0]
        name = F.norm_path(c["path"]).split("::")[-1]
        rep.check(k2 == k, "R33", "table %s offset" % name, "table-offset:" + fam, "table %s starts at offset %d, the index map in the code assumes %d" % (name, k2, k), where=c["span"], detail={"family": fam, "offset": k2}, nontrivial=False)
        w = F.words_from_hex(c["val"]["hex"])
        m = len(w) // 2
        rep.check(m >= n, "R33", "table %s length" % name, "table-len:" + fam, "table %s has %d entries, expected at least %d" % (name, m, n), where=c["span"], nontrivial=False)
        bad = []
        for i in range(m):
            hi, lo = oracle.f64_of(w[2 * i]), oracle.f64_of(w[2 * i + 1])
            e = oracle.family_dd(fam, k2, i)
            if (hi, lo) != e:
                # tolerance of the property: valid and within 2^-104 relative
                from fractions import Fraction
                with oracle.mpmath.workprec(400):
                    tv = oracle.mpf_to_frac(oracle.FAMILIES[fam](i, k2))
                got = Fraction(hi) + Fraction(lo)
                rel = abs(got - tv) / abs(tv) if tv != 0 else abs(got)
                if not oracle.valid(hi, lo) or rel > Fraction(1, 2 ** 104):
                    bad.append((i, float.hex(hi), float.hex(lo), float.hex(e[0]), float.hex(e[1])))
        rep.check(not bad, "R33", "table %s entries (%d)" % (name, m), "table-entry:" + fam,
                  "table %s (family %s) has wrong entries: %s" % (name, fam, bad[:3]), where=c["span"], detail="%d entries == dd(g(i))" % m)

def check_series(fx, frac):
    """R34 truncation error of the Taylor pieces (rigorous remainder bounds in exact rationals)."""
    from fractions import Fraction
    rep = fx.rep
    # expm1 on |y| <= 1/256 + 2^-40 with terms 1/2!..1/14!: relative remainder <= sum_{k>=15} |y|^(k-1)/k!
    def tail(y, first):   # sum_{k>=first} y^(k-1)/k!  <=  y^(first-1)/first! * 1/(1 - y/(first+1))
        t = y ** (first - 1) / math.factorial(first)
        return t / (1 - y / (first + 1))
    y1 = Fraction(1, 256) + Fraction(1, 2 ** 40)
    e1 = tail(y1, 15)
    rep.check(e1 <= Fraction(1, 2 ** 101), "R34", "expm1_quarter Taylor truncation", "series:expm1-quarter", "Taylor 2..14 on |y|<=1/256 leaves relative remainder %.3g > 2^-101" % float(e1), detail="<= 2^%.1f" % math.log2(float(e1)))
    y2 = Fraction(7, 10)   # [-ln 2, ln 1.5] within |x| <= 0.7
    e2 = tail(y2, 15)
    rep.check(e2 <= Fraction(1, 2 ** 46), "R34", "exp_m1 Taylor truncation", "series:exp-m1", "Taylor 2..14 on [-ln2, ln1.5] leaves relative remainder %.3g > 2^-46" % float(e2), detail="<= 2^%.1f" % math.log2(float(e2)))
    # exp2: 12 terms (0..11) on |r| <= ln2/1024 (+margin); after nine squarings the relative error grows 512-fold
    r = Fraction(7, 10000)
    t = r ** 12 / math.factorial(12) / (1 - r / 13)
    e3 = t * 512 * 2
    rep.check(e3 <= Fraction(1, 2 ** 94), "R34", "exp2 Taylor truncation x 2^9", "series:exp2", "12-term Taylor on |r|<=ln2/1024, squared nine times, leaves %.3g > 2^-94" % float(e3), detail="<= 2^%.1f" % math.log2(float(e3)))

# ====================================================================== C15

def newton_chain(start, step, k):
    x = start
    for _ in range(k):
        x = step(x)
    return x

def try_chain(fx, ident, build, ks, rule, what, kmin):
    """the function equals build(k) for some k in ks (k >= kmin Newton corrections)"""
    rep = fx.rep
    try:
        t, b = fx.tree(ident)
    except vg.Unsupported as u:
        rep.fail(rule, ident, "unsupported:" + ident, "cannot evaluate %s: %s" % (ident, u)); return
    if t is None:
        rep.fail(rule, ident, "anchor-lost:" + ident, "%s not found (reason=anchor-lost)" % ident); return
    hit = None; last = None
    for k in ks:
        m = D.equivalent(t, fx.n(build(k)), leaf_eq_nan)
        if m is None:
            hit = k; break
        if k == ks[0]:
            last = m
    rep.check(hit is not None and hit >= kmin, rule, ident, "form:" + ident,
              "%s is not %s with at least %d correction steps: %s" % (ident, what, kmin, (last.describe()[:700] if last and hit is None else "only %s step(s)" % hit)),
              where=H.where(b), detail="%s; %s correction step(s)" % (what, hit))

def check_C15(ctx, rep):
    f = ctx.facts("A")
    fx = Fx(f, rep)
    s = param(0)
    def ln_ref(k):
        x0 = TFv(libm("log", s.hi), 0.0)
        x = newton_chain(x0, lambda x: x + (s * (-x).exp() - 1.0), k - 1)
        last = x + s * (-x).exp() - 1.0
        return IF(teq(s, 1.0), RETV(ZERO_TF), IF(tcmp("le", s, 0.0), NAN_LEAF, RETV(last)))
    try_chain(fx, "TwoFloat::ln", ln_ref, (3, 2, 4, 1), "R39", "ln: ==1 -> 0; <=0 -> NaN; x0=log(hi); x += self*exp(-x) - 1", 2)
    def log2_ref(k):
        il2 = oracle.dd_named("1/ln(2)"); K = TFv(il2[0], il2[1])
        x0 = TFv(libm("log2", s.hi), 0.0)
        x = newton_chain(x0, lambda x: x + (s * (-x).exp2() - 1.0) * K, k)
        return IF(teq(s, 1.0), RETV(ZERO_TF), IF(tcmp("le", s, 0.0), NAN_LEAF, RETV(x)))
    try_chain(fx, "TwoFloat::log2", log2_ref, (2, 3, 1, 4), "R39", "log2: ==1 -> 0; <=0 -> NaN; x0=log2(hi); x += (self*exp2(-x) - 1)*dd(1/ln 2)", 2)
    def ln1p_ref(k):
        x0 = TFv(libm("log1p", s.hi), 0.0)
        def step(x):
            e = x.exp_m1()
            return x - (e - s) / (e + 1.0)
        x = newton_chain(x0, step, k)
        # (next to -1 the low word is not negligible beside 1 + hi, which the starting value log1p(hi) assumes - (-1, 2^-60) gave
        #  NaN, (-1 + 2^-53, -2^-55) a relative error of 2^-16: defect D11, fixed; for hi < -1/2 the sum 1 + x is formed without
        #  cancellation error (Sterbenz) and ln takes over)
        return IF(teq(s, 0.0), RETV(ZERO_TF), IF(tcmp("le", s, -1.0), NAN_LEAF, IF(fcmp("lt", s.hi, -0.5), RETV((1.0 + s).ln()), RETV(x))))
    try_chain(fx, "TwoFloat::ln_1p", ln1p_ref, (2, 3, 1, 4), "R39", "ln_1p: ==0 -> 0; <=-1 -> NaN; hi < -1/2 -> ln(1 + x); x0=log1p(hi); x -= (e - self)/(e + 1), e = exp_m1(x)", 2)
    # residue of D11 (recorded: K3): for hi = -1 the sum 1 + x is the low word, which may be subnormal, and ln of a subnormal
    # argument is NaN (its iteration evaluates exp(-x0) with -x0 > 709.78): ln_1p((-1, lo)) is invalid for lo < 2^-1022
    try:
        t1p, b1p = fx.tree("TwoFloat::ln_1p")
    except vg.Unsupported:
        t1p = None
    if t1p is not None:
        hands_over = any(leaf[0] == "leaf" and any(tag(n) == "call" and n[1] == "TwoFloat::ln" for n in all_nodes(leaf[1])) for _, leaf in vg.leaves(t1p))
        guarded = any(any(tag(n) == "const" and n[1] == "f64" and 0 < oracle.f64_of(n[2]) <= 2.0 ** -1000 for n in all_nodes(c)) for path, _ in vg.leaves(t1p) for c, _v in path)
        rep.check(not hands_over or guarded, "R39r", "ln_1p: the argument handed to ln is in ln's range", "ln_1p-subnormal-argument",
                  "ln_1p hands 1 + x to ln for hi < -1/2 with no lower bound: for x = (-1, lo) with a subnormal lo (1 + x < 2^-1022) ln returns NaN although "
                  "ln(1 + x) = ln(lo) is an ordinary number (about -710 ... -744)", where=H.where(b1p), nontrivial=False)
    b = param(1)
    check_ref(fx, "R38", "TwoFloat::log", RETV(s.ln() / b.ln()), "ln(x) / ln(b)")
    l10 = oracle.dd_named("LN_10")
    check_ref(fx, "R38", "TwoFloat::log10", RETV(s.ln() / TFv(l10[0], l10[1])), "ln(x) / dd(ln 10)")
    # the logarithms are Newton iterations on exp / exp2 / exp_m1: their tables and the exp_m1 switch are
    # part of what the accuracy clause of this property rests on
    check_tables(fx)
    frac = find_table(fx, "1/i!", 0, 21)
    if frac is not None:
        check_exp_m1(fx, frac, rule="R39d")
    from .rules_c10 import check_delegation_subset
    check_delegation_subset(rep, f, {"ln", "log", "log2", "log10", "ln_1p"})
    rep.floor("R37-39", len([o for o in rep.obl if o["rule"] in ("R38", "R39")]), 5, "logarithm functions")
    from . import rules_total
    rules_total.totality(rep, f, "R40", rules_total.entries_C15(), "logarithm family", min_sites=0)

# ====================================================================== C16

def kernels(fx):
    """value-classified minimax tables: the five arrays that match no family, by role"""
    out = {}
    for c in fx.f.consts:
        ty = F.norm_ty(c["ty"])
        if ty.startswith("[TwoFloat;") and "hex" in (c.get("val") or {}) and "::tests::" not in c["key"]:
            node = mk("carray", ty, c["val"]["hex"])
            out[F.norm_path(c["path"]).split("::")[-1]] = (node, c)
    return out

def horner_full(x, node):
    return horner_chain(x, node, 0, idioms.array_len(node))

ODD_VARIANT = {}      # kernel table -> evaluation order of the odd kernel found in the code (chosen by check_ref, odd_tab=)
N_ODD_VARIANTS = 3
def k_sin(x, C): 
    """the odd kernel x + x^3 H(x^2) in one of the evaluation orders accepted for it: the same polynomial, whose rounding error
    is bounded from the order actually used (R43e expands whatever this returns)"""
    x2 = x * x
    h = horner_full(x2, C)
    v = ODD_VARIANT.get(C, 0)
    if v == 1:
        return x + x * (x2 * h)
    if v == 2:
        return x + (x * x2) * h
    return x * (x2 * h + 1.0)
def k_cos(x, C):
    x2 = x * x
    return x2 * (x2 * horner_full(x2, C) + (-0.5)) + 1.0

def _is_op(t, op):
    return tag(t) == "call" and (t[1].startswith("op:%s:" % op) or t[1].startswith("opc:%s" % op)) and len(t) == 4

def parse_chain(t, x):
    """[c0, c1, ...] when t is the Horner chain c0 + x*(c1 + x*(...)) over constants (either operand order), else None"""
    from . import errbound as EB
    if EB.const_value(t) is not None:
        return [t]
    if _is_op(t, "add"):
        for c, m in ((t[2], t[3]), (t[3], t[2])):
            if EB.const_value(c) is not None and _is_op(m, "mul"):
                for xx, rest in ((m[2], m[3]), (m[3], m[2])):
                    if xx is x:
                        sub = parse_chain(rest, x)
                        if sub is not None:
                            return [c] + sub
    return None

def kernel_from_term(v, kind):
    """coefficient constants of the minimax part H of an evaluated kernel, read from the term itself (so that the way the
    coefficients are stored does not matter): odd kernels r*(1 + r2*H(r2)), the cosine kernel 1 + r2*(-1/2 + r2*H(r2))"""
    from . import errbound as EB
    def const_is(t, val):
        c = EB.const_value(t)
        return c is not None and c == val
    if kind == "odd" and _is_op(v, "mul"):
        for r, inner in ((v[2], v[3]), (v[3], v[2])):
            if _is_op(inner, "add"):
                for one, m in ((inner[2], inner[3]), (inner[3], inner[2])):
                    if const_is(one, 1) and _is_op(m, "mul"):
                        for x2, H_ in ((m[2], m[3]), (m[3], m[2])):
                            if _is_op(x2, "mul") and x2[2] is r and x2[3] is r:
                                ch = parse_chain(H_, x2)
                                if ch:
                                    return ch
    if kind == "cos" and _is_op(v, "add"):
        for one, m in ((v[2], v[3]), (v[3], v[2])):
            if const_is(one, 1) and _is_op(m, "mul"):
                for x2, inner in ((m[2], m[3]), (m[3], m[2])):
                    if _is_op(x2, "mul") and x2[2] is x2[3]:
                        ch = parse_chain(inner, x2)
                        if ch and len(ch) >= 2 and const_is(ch[0], _Fr(-1, 2)):
                            return ch[1:]
    return None

def synth_table(consts):
    """a [TwoFloat; n] table node holding the given constants (f64 constants get a zero low word)"""
    import struct
    hx = ""
    for c in consts:
        if tag(c) == "const":
            words = (c[2], 0)
        else:
            words = (c[2][0][2], c[2][1][2])
        hx += "".join(struct.pack("<Q", w).hex() for w in words)
    return mk("carray", "[TwoFloat; %d]" % len(consts), hx)

def first_kernel_leaf(t):
    """the value of the first ordinary leaf (the branch that needs no argument reduction)"""
    for path, leaf in vg.leaves(t):
        if leaf[0] == "leaf" and tag(leaf[1]) == "call":
            return leaf[1]
    return None

def quadrant_ref(x, leaf_of):
    """the reduction of `quadrant` with continuation leaf_of(reduced argument, quadrant index or None)"""
    p2 = oracle.dd_named("FRAC_PI_2"); p4 = oracle.dd_named("FRAC_PI_4")
    K = TFv(p2[0], p2[1]); T4 = TFv(p4[0], p4[1])
    q = (x / K).round()
    r = x - q * K
    conv = mk("call", "<i8 as core::convert::TryFrom<TwoFloat>>::try_from", (q % 4.0).t)
    okv = mk("field", mk("downcast", conv, "Ok"), 0)
    def arms(idx_term):
        return ("switch", idx_term, tuple((i, leaf_of(r, i)) for i in range(3)), leaf_of(r, 3))
    nanv = TFv(float("nan"), float("nan"))
    bad = leaf_of(nanv, 0)
    inner = ("switch", mk("discr", conv),
             ((0, IF(mk("cmp", "ge", "i8", okv, mk("const", "i8", 0)), arms(okv),
                     IF(mk("cmp", "ge", "i8", okv, mk("const", "i8", vg.from_signed("i8", -4))), arms(mk("i", "add", "i8", mk("const", "i8", 4), okv)), bad))),),
             bad)
    return IF(tcmp("lt", x.abs(), T4), leaf_of(x, 0), inner)

def check_C16(ctx, rep):
    f = ctx.facts("A")
    fx = Fx(f, rep)
    ks = kernels(fx)
    need = ["SIN_COEFFS", "COS_COEFFS", "TAN_COEFFS"]
    # role identification by use: the tables are found from the trees themselves (value-keyed)
    s = param(0)
    try:
        t_sin, b_sin = fx.tree("TwoFloat::sin")
    except vg.Unsupported as u:
        rep.fail("R41", "TwoFloat::sin", "unsupported:sin", "cannot evaluate sin: %s" % u); return
    # collect the horner tables used by sin: the kernel whose value is x*(1+x2*H) is the sine kernel
    tabs = []
    for carr, lo, hi in fx.iterated:
        if carr not in tabs:
            tabs.append(carr)
    role_from_terms = None
    if len(tabs) != 2 or any(not tb[1].startswith("[TwoFloat;") for tb in tabs):
        # the coefficients are not kept as two TwoFloat tables: read them from the evaluated kernels themselves
        try:
            t_cos0, _ = fx.tree("TwoFloat::cos")
        except vg.Unsupported:
            t_cos0 = None
        ks_ = kernel_from_term(first_kernel_leaf(t_sin), "odd")
        kc_ = kernel_from_term(first_kernel_leaf(t_cos0), "cos") if t_cos0 is not None else None
        if ks_ and kc_:
            role_from_terms = {"sin": synth_table(ks_), "cos": synth_table(kc_)}
            tabs = [role_from_terms["sin"], role_from_terms["cos"]]
            fx.tree("TwoFloat::sin")
    if len(tabs) != 2:
        rep.fail("R41", "sin kernels", "anchor-lost:sin-kernels", "expected two minimax tables reachable from sin, found %d (reason=anchor-lost)" % len(tabs)); return
    def classify_kernel(tab):
        # sin kernel's leading coefficient is about -1/6, cos's about 1/24
        w = F.words_from_hex(tab[2]); c0 = oracle.f64_of(w[0])
        return "sin" if abs(c0 + 1.0 / 6) < 1e-6 else ("cos" if abs(c0 - 1.0 / 24) < 1e-6 else None)
    role = {classify_kernel(tb): tb for tb in tabs}
    if set(role) != {"sin", "cos"} and role_from_terms is None:
        # the tables are there but not in ascending order of the powers (a table stored highest order first and read front to
        # back): read the coefficients from the evaluated kernels, in the order the Horner chain uses them
        try:
            t_cos0, _ = fx.tree("TwoFloat::cos")
            ks_ = kernel_from_term(first_kernel_leaf(t_sin), "odd")
            kc_ = kernel_from_term(first_kernel_leaf(t_cos0), "cos")
        except vg.Unsupported:
            ks_ = kc_ = None
        if ks_ and kc_:
            role_from_terms = {"sin": synth_table(ks_), "cos": synth_table(kc_)}
            tabs = [role_from_terms["sin"], role_from_terms["cos"]]
            fx.tree("TwoFloat::sin")
            role = {classify_kernel(tb): tb for tb in tabs}
    if set(role) != {"sin", "cos"}:
        rep.fail("R41", "sin kernels", "anchor-lost:sin-kernel-roles", "sine/cosine kernel tables not recognised by their leading coefficients -1/6 and 1/24 (reason=anchor-lost)"); return
    S = lambda r: k_sin(r, role["sin"]); C = lambda r: k_cos(r, role["cos"])
    nan = NAN_LEAF
    def dispatch(table, invalid):
        def leaf_of(r, i):
            return RETV(table[i](r))
        return IF(s.is_valid(), quadrant_ref(s, leaf_of), invalid)
    sin_tab = [lambda r: S(r), lambda r: C(r), lambda r: -S(r), lambda r: -C(r)]
    cos_tab = [lambda r: C(r), lambda r: -S(r), lambda r: -C(r), lambda r: S(r)]
    check_ref(fx, "R41", "TwoFloat::sin", lambda t_: dispatch(sin_tab, nan), "invalid -> NaN; reduction by dd(pi/2) with threshold dd(pi/4); quadrants [S, C, -S, -C]", odd_tab=role["sin"])
    check_ref(fx, "R41", "TwoFloat::cos", dispatch(cos_tab, nan), "invalid -> NaN; quadrants [C, -S, -C, S]")
    # sin_cos: arm k equals (sin.arm k, cos.arm k)
    def sc_leaf(r, i):
        a = sin_tab[i](r); c = cos_tab[i](r)
        return ("leaf", mk("agg", ("tuple",), (a.t, c.t)), ())
    nanpair = ("NANPAIR",)
    def leq(l1, l2):
        if l2 == nanpair or l1 == nanpair:
            o = l1 if l2 == nanpair else l2
            from .dsl import is_nan_tf
            return o[0] == "leaf" and tag(o[1]) == "agg" and len(o[1][2]) == 2 and all(is_nan_tf(x) for x in o[1][2])
        return leaf_eq_nan(l1, l2)
    try:
        t, b = fx.tree("TwoFloat::sin_cos")
        ref = fx.n(IF(s.is_valid(), quadrant_ref(s, sc_leaf), nanpair))
        m = D.equivalent(t, ref, leq)
        rep.check(m is None, "R41", "TwoFloat::sin_cos", "form:sin_cos", "sin_cos is not (sin, cos) arm by arm: %s" % (m.describe()[:600] if m else ""), where=H.where(b),
                  detail="arm k == (sin.arm k, cos.arm k) bit-for-bit")
    except vg.Unsupported as u:
        rep.fail("R41", "TwoFloat::sin_cos", "unsupported:sin_cos", "cannot evaluate sin_cos: %s" % u)
    # tan
    try:
        t_tan, b_tan = fx.tree("TwoFloat::tan")
        ttabs = []
        for carr, lo, hi in fx.iterated:
            if carr not in ttabs:
                ttabs.append(carr)
        if len(ttabs) != 1 or not ttabs[0][1].startswith("[TwoFloat;"):
            kt_ = kernel_from_term(first_kernel_leaf(t_tan), "odd")
            if kt_:
                ttabs = [synth_table(kt_)]
        if len(ttabs) != 1:
            rep.fail("R41", "tan kernel", "anchor-lost:tan-kernel", "expected one minimax table reachable from tan, found %d" % len(ttabs))
        else:
            T = lambda r: k_sin(r, ttabs[0])
            tan_tab = [lambda r: T(r), lambda r: -1.0 / T(r), lambda r: T(r), lambda r: -1.0 / T(r)]
            def leaf_of(r, i):
                return RETV(tan_tab[i](r))
            # a version that tests the kernel value (or the reduced argument) for zero before dividing is the same function
            # away from the poles; what it returns at the pole is not judged here (R42z only asks for the test)
            def leaf_guard_T(r, i):
                return RETV(T(r)) if i % 2 == 0 else IF(teq(T(r), 0.0), ANY_LEAF, RETV(-1.0 / T(r)))
            def leaf_guard_r(r, i):
                return RETV(T(r)) if i % 2 == 0 else IF(teq(r, 0.0), ANY_LEAF, RETV(-1.0 / T(r)))
            check_ref(fx, "R41", "TwoFloat::tan", lambda t_: IF(s.is_valid(), quadrant_ref(s, leaf_of), RETV(s)), "invalid -> self; quadrants [T, -1/T, T, -1/T]",
                      alt=(lambda: IF(s.is_valid(), quadrant_ref(s, leaf_guard_T), RETV(s)), lambda: IF(s.is_valid(), quadrant_ref(s, leaf_guard_r), RETV(s))), odd_tab=ttabs[0])
            w = F.words_from_hex(ttabs[0][2])
            rep.check(abs(oracle.f64_of(w[0]) - 1.0 / 3) < 1e-6, "R41", "tan kernel leading coefficient", "tan-kernel-c0", "tan kernel's first coefficient is %r, expected about 1/3" % oracle.f64_of(w[0]), nontrivial=False)
    except vg.Unsupported as u:
        rep.fail("R41", "TwoFloat::tan", "unsupported:tan", "cannot evaluate tan: %s" % u)
    check_kernel_approx(fx, "sin", role["sin"], "sin")
    check_kernel_approx(fx, "cos", role["cos"], "cos")
    if 'ttabs' in dir() and len(ttabs) == 1:
        check_kernel_approx(fx, "tan", ttabs[0], "tan")
    check_sincos_total_error(fx, role)
    if 'ttabs' in dir() and len(ttabs) == 1:
        check_tan_total_error(fx, ttabs[0], t_tan, b_tan)
    from .rules_c10 import check_delegation_subset
    check_delegation_subset(rep, f, {"sin", "cos", "tan", "sin_cos"})
    from . import rules_total
    rules_total.totality(rep, f, "R42t", rules_total.entries_C16(), "trigonometric functions", min_sites=0)
    rep.floor("R41", len([o for o in rep.obl if o["rule"] == "R41"]), 4, "trigonometric dispatch tables")

def check_tan_total_error(fx, tab, t_tan, b_tan):
    """R42z: the reciprocal arms of tan divide by the kernel value without excluding zero, and the reduced argument is
    exactly zero for the valid inputs x = q (x) P (q odd): tan returns NaN where the true tangent is finite.
    R43e: away from the poles (|reduced argument| >= 2 rho) the stated tan bound follows from the kernel's relative
    error, the division bound and the reduction error; within 2 rho of a pole nothing is decided."""
    from . import approx, errbound as EB
    from .rules_c10 import module_const
    rep = fx.rep
    Fr = _Fr
    # --- R42z
    unguarded = []
    for path, leaf in vg.leaves(t_tan):
        if leaf[0] != "leaf":
            continue
        for n in all_nodes(leaf[1]):
            if tag(n) == "call" and n[1].startswith("op:div:f64:TwoFloat") and len(n) == 4 and tag(n[2]) == "const":
                D_ = n[3]
                inner = set(all_nodes(D_))
                guarded = any(tag(c) in ("cmp", "call", "not") and (D_ in set(all_nodes(c)) or any(tag(y) == "call" and y[1].startswith("op:sub") and y in inner for y in all_nodes(c)))
                              and any(tag(z) == "const" and z[1] == "f64" and oracle.f64_of(z[2]) == 0.0 for z in all_nodes(c)) for c, v in path)
                if not guarded:
                    unguarded.append(n)
    rep.check(not unguarded, "R42z", "tan: reciprocal arms exclude a zero kernel value", "tan-pole-unguarded",
              "tan computes -1.0 / T(r) in the odd quadrants with no test for T(r) == 0, and r = x - round(x/P)*P is exactly 0 for the valid argument x = consts::FRAC_PI_2 "
              "(q = 1, 1*P = P exactly, P - P = 0, T(0) = 0): the result is NaN although tan(dd(pi/2)) = -6.678e32 is finite; same for x = q*FRAC_PI_2, q odd",
              where=H.where(b_tan), detail="%d reciprocal leaves, each dominated by a zero test of the divisor or of the reduced argument" % len(unguarded))
    # --- R43e (away from the poles)
    x = param(0)
    try:
        ms = EB.monomials(k_sin(x, tab).t, x.t)
    except EB.NotPolynomial as e:
        rep.fail("R43e", "tan total error", "errbound:tan-not-polynomial", "tan kernel reference form is not a polynomial: %s" % e); return
    w = F.words_from_hex(tab[2])
    co = [Fr(oracle.f64_of(w[2 * i])) + Fr(oracle.f64_of(w[2 * i + 1])) for i in range(len(w) // 2)]
    try:
        a_t, r_t = approx.kernel_error("tan", co, PI4, nterms=34 + (14 if rep.tier == "thorough" else 0))
    except Exception as e:
        rep.fail("R43e", "tan total error", "errbound:tan-approx", "could not bound the tan kernel: %r" % (e,)); return
    e_rel = EB.eval_error(ms, PI4, min_power=1)          # |evaluation error| / |x|  <=  relative to tan(x) since |tan x| >= |x|
    eps_k = r_t + e_rel
    eps = (eps_k + EB.E_DIV_DD) / (1 - eps_k)            # reciprocal arm: (1 + eps_k)^-1 (1 + division error)
    Pc = module_const(fx.f, "consts::FRAC_PI_2")
    if Pc is None:
        rep.fail("R43e", "reduction constant", "anchor-lost:consts::FRAC_PI_2", "consts::FRAC_PI_2 not found (reason=anchor-lost)"); return
    P = EB.const_value(Pc)
    with oracle.mpmath.workprec(500):
        half_pi = oracle.mpf_to_frac(oracle.mpmath.pi / 2)
    dP = abs(P - half_pi) + Fr(1, 2 ** 480)
    R = Fr(2 ** 20)
    qmax = R / P * (1 + EB.E_DIV_DD) + Fr(1, 2)
    r1 = P / 2 + R * EB.E_DIV_DD
    rho = qmax * P * EB.E_MUL_DD * (1 + EB.E_ADD_DD) + r1 * EB.E_ADD_DD + qmax * dP
    # tan arms: |tan r_c - tan r*| <= rho (1 + tan^2 xi), (1 + tan^2 xi)/(1 + tan^2 r*) <= exp(2 tan(pi/4+) rho) <= 1 + 5 rho
    # cot arms with |r_c| >= 2 rho: |cot r_c - cot r*| <= rho / (|sin r_c| |sin r*|) <= rho (1 + rho/|sin r_c|) / sin^2 r* <= 1.6 rho (1 + cot^2 r*)
    red = rho * Fr(8, 5)
    L = EB.log2f
    detail = {"kernel_rel": "2^%.2f" % L(eps_k), "with_reciprocal": "2^%.2f" % L(eps), "reduction_term": "2^%.2f" % L(red),
              "undecided": "arguments within 2*rho = 2^%.1f of an odd multiple of pi/2" % L(2 * rho)}
    # the statement's second term is the first-order effect of the reduction error on tan; within 2*rho of an odd multiple of pi/2 the
    # computed remainder is mostly reduction error and -1/T(r) amplifies it beyond that term.  Valid double-doubles do lie that
    # close (their spacing at 2^20 is 2^-86, far below rho), so the bound fails there unless the reduction is accurate to well below
    # that spacing - which a two-word pi/2 cannot be (recorded: K2b)
    rep.check(2 * rho <= Fr(1, 2 ** 125), "R43e", "tan error next to the odd multiples of pi/2", "tan-near-pole",
              "tan's bound is not established (and fails on the real code) for valid arguments within 2*rho = 2^%.1f of an odd multiple of pi/2: the remainder "
              "r = x - q*P carries the error of the two-word reduction, and -1/T(r) turns it into an error larger than 2^-80 (1 + tan^2 v), e.g. "
              "x = (0x1.a9adcc7f96cf0p+19, 0x1.d2a4f27e9ffffp-52): tan returns +2^104 for the true -2.48e26" % L(2 * rho), detail=detail)
    rep.check(eps <= Fr(1, 2 ** 50) and red <= Fr(1, 2 ** 80), "R43e", "tan error for 2^-400 <= |x| <= 2^20 away from the poles", "errbound:tan",
              "tan's bound 2^-50 |tan v| + 2^-80 (1 + tan^2 v) is not established: relative part 2^%.2f, reduction part 2^%.2f" % (L(eps), L(red)), detail=detail)

def check_sincos_total_error(fx, role):
    """R43e: end-to-end error of sin / cos on |x| <= 2^20 from the pieces the other rules established:
    approximation error of the kernels (R43), rounding error of their Horner evaluation (perturbation bound over
    the reference form R41 proved the code equal to), and the argument reduction  r = x - round(x / P) * P  with the
    crate's own constant P (read from the fact file).  Exact rational arithmetic throughout."""
    from . import approx, errbound as EB
    from .rules_c10 import module_const
    rep = fx.rep
    Fr = _Fr
    x = param(0)
    try:
        ms = EB.monomials(k_sin(x, role["sin"]).t, x.t)
        mc = EB.monomials(k_cos(x, role["cos"]).t, x.t)
    except EB.NotPolynomial as e:
        rep.fail("R43e", "sin/cos total error", "errbound:not-polynomial", "kernel reference form is not a polynomial in TwoFloat arithmetic: %s" % e); return
    X = PI4
    def coeffs(tab):
        w = F.words_from_hex(tab[2])
        return [Fr(oracle.f64_of(w[2 * i])) + Fr(oracle.f64_of(w[2 * i + 1])) for i in range(len(w) // 2)]
    n = 18 + (14 if rep.tier == "thorough" else 0)
    try:
        a_s, r_s = approx.kernel_error("sin", coeffs(role["sin"]), X, nterms=n)
        a_c, _ = approx.kernel_error("cos", coeffs(role["cos"]), X, nterms=n)
    except Exception as e:
        rep.fail("R43e", "sin/cos total error", "errbound:approx", "could not bound the kernels: %r" % (e,)); return
    e_s = EB.eval_error(ms, X); e_c = EB.eval_error(mc, X)
    e_s_rel = EB.eval_error(ms, X, min_power=1)          # |evaluation error| / |x|
    # the reduction constant is the crate's own
    Pc = module_const(fx.f, "consts::FRAC_PI_2")
    if Pc is None:
        rep.fail("R43e", "reduction constant", "anchor-lost:consts::FRAC_PI_2", "consts::FRAC_PI_2 not found (reason=anchor-lost)"); return
    P = EB.const_value(Pc)
    with oracle.mpmath.workprec(500):
        half_pi = oracle.mpf_to_frac(oracle.mpmath.pi / 2)
    slack = Fr(1, 2 ** 480)
    dP = abs(P - half_pi) + slack
    R = Fr(2 ** 20)
    def reduction(xmax):
        """(bound on |r_c - r*|, bound on |r_c|) for |x| <= xmax in the reduction branch"""
        qmax = xmax / P * (1 + EB.E_DIV_DD) + Fr(1, 2)
        r1 = P / 2 + xmax * EB.E_DIV_DD                  # |x - q P| (q = round of the quotient, which C05 puts within 16u^2)
        mulerr = qmax * P * EB.E_MUL_DD * (1 + EB.E_ADD_DD)
        rho = mulerr + r1 * EB.E_ADD_DD + qmax * dP
        return rho, r1 + mulerr + r1 * EB.E_ADD_DD
    rho, rmax = reduction(R)
    dom_ok = rmax <= X
    tot_sin = max(a_s + e_s, a_c + e_c) + rho
    tot_cos = tot_sin
    L = EB.log2f
    detail = {"approx_sin": "2^%.2f" % L(a_s), "approx_cos": "2^%.2f" % L(a_c), "eval_sin": "2^%.2f" % L(e_s), "eval_cos": "2^%.2f" % L(e_c),
              "reduction": "2^%.2f" % L(rho), "total": "2^%.2f" % L(tot_sin), "monomials": [len(ms), len(mc)],
              "max_reduced_argument_minus_pi_4": "2^%.2f" % L(max(rmax - Fr(7853981633974483, 10 ** 16), Fr(1, 2 ** 200))),
              "lemmas": "op error bounds of JMP Alg. 4/6/9/12 (conformance: C03, C04); quotient within 16u^2 (C05, rule R10e; anything below 2^-61 suffices); round exact (C08); q mod 4 exact (scaling by 4)"}
    rep.check(dom_ok, "R43e", "reduced argument stays in the kernel interval", "errbound:domain",
              "for |x| <= 2^20 the reduced argument can reach %s, beyond the interval the kernel bounds cover" % float(rmax), detail=detail["max_reduced_argument_minus_pi_4"], nontrivial=False)
    rep.check(tot_sin <= Fr(1, 2 ** 66), "R43e", "sin, cos absolute error for 2^-400 <= |x| <= 2^20", "errbound:sincos-abs",
              "approximation + evaluation + reduction error of sin/cos is bounded only by 2^%.2f, the property needs 2^-66: %s" % (L(tot_sin), detail), detail=detail)
    # relative clause of sin on |x| <= pi/4: direct branch |x| < dd(pi/4); tie zone dd(pi/4) <= |x| <= pi/4 may reduce with |q| <= 1
    rel_direct = r_s + e_s_rel / (1 - X * X / 6)
    rho1, _ = reduction(X)
    sin_lo = Fr(7, 10)                                   # sin(x) >= 0.7 for x >= 0.78
    rel_tie = (max(a_s + e_s, a_c + e_c) + rho1) / sin_lo
    rel = max(rel_direct, rel_tie)
    rep.check(rel <= Fr(1, 2 ** 64), "R43e", "sin relative error for 2^-400 <= |x| <= pi/4", "errbound:sin-rel",
              "relative error of sin on the primary interval is bounded only by 2^%.2f, the property needs 2^-64" % L(rel),
              detail={"direct": "2^%.2f" % L(rel_direct), "tie zone (|q| <= 1)": "2^%.2f" % L(rel_tie)})

# ---------------------------------------------------------------- R43 kernel approximation error

from fractions import Fraction as _Fr
PI4 = _Fr(7853981633974484, 10 ** 16) + _Fr(1, 2 ** 40)     # > pi/4 (1 + 2^-50)
KERNEL_SPEC = {
    # kind: (interval bound X, abs floor exponent, rel floor exponent) -- half of the property's floors
    "sin": (PI4, 67, 65),
    "cos": (PI4, 67, None),
    "tan": (PI4, None, 51),
    "asin": (_Fr(1, 2), 46, 44),
    "atan": (_Fr(7, 16), None, 71),
}

def check_kernel_approx(fx, name, table, kind):
    from . import approx
    rep = fx.rep
    X, ea, er = KERNEL_SPEC[kind]
    words = F.words_from_hex(table[2])
    coeffs = [_Fr(oracle.f64_of(words[2 * i])) + _Fr(oracle.f64_of(words[2 * i + 1])) for i in range(len(words) // 2)]
    try:
        a, r = approx.kernel_error(kind, coeffs, X, nterms=(18 if kind in ('sin', 'cos') else 34) + (14 if fx.rep.tier == 'thorough' else 0))
    except Exception as e:
        rep.fail("R43", "%s kernel approximation" % name, "approx-failed:" + kind, "could not bound the %s kernel: %r" % (kind, e)); return
    msgs = []
    ok = True
    if ea is not None:
        ok &= a <= _Fr(1, 2 ** ea); msgs.append("abs <= 2^%.2f (need 2^-%d)" % (math.log2(float(a)), ea))
    if er is not None and r is not None:
        ok &= r <= _Fr(1, 2 ** er); msgs.append("rel <= 2^%.2f (need 2^-%d)" % (math.log2(float(r)), er))
    rep.check(ok, "R43", "%s kernel approximation error on |x| <= %.6f" % (name, float(X)), "approx:" + kind,
              "the %s polynomial kernel does not approximate %s well enough: %s" % (name, kind, "; ".join(msgs)), detail="; ".join(msgs) + " (%d coefficients, exact rationals, critical points isolated)" % len(coeffs))

# ====================================================================== C17

def odd_kernel_errors(fx, tab, kind, X):
    """(approximation abs, approximation rel, evaluation abs, evaluation error / |x|) of an odd kernel x(1 + x^2 H(x^2)) on |x| <= X"""
    from . import approx, errbound as EB
    w = F.words_from_hex(tab[2])
    co = [_Fr(oracle.f64_of(w[2 * i])) + _Fr(oracle.f64_of(w[2 * i + 1])) for i in range(len(w) // 2)]
    a, r = approx.kernel_error(kind, co, X, nterms=34 + (14 if fx.rep.tier == "thorough" else 0))
    x = param(0)
    ms = EB.monomials(k_sin(x, tab).t, x.t)
    return a, r, EB.eval_error(ms, X), EB.eval_error(ms, X, min_power=1)

def check_atan_total_error(fx, tab):
    """R43e: atan / atan2 relative error from the kernel bounds, the evaluation error and the arm transforms (reference form R44/R46)"""
    from . import errbound as EB
    rep = fx.rep; Fr = _Fr
    X = Fr(7, 16) + Fr(1, 2 ** 60)      # the thresholds are tested on a rounded k = 4|x| + 1/4: the breakpoints move by < 2^-100
    try:
        a, r, e_abs, e_rel = odd_kernel_errors(fx, tab, "atan", X)
    except Exception as e:
        rep.fail("R43e", "atan total error", "errbound:atan", "could not bound the atan kernel: %r" % (e,)); return
    eps_k = r + e_rel / (1 - X * X / 3)                  # relative to atan(t): atan(t)/t >= 1 - t^2/3
    # transform t = (x - c)/(1 + c x) or 1/x: at most 8 rounded operations, each within 16u^2 (the division lemma is the largest);
    # atan is 1-Lipschitz and t/(1+t^2) <= atan t, so a relative perturbation of t is at most that relative perturbation of atan t
    eps_t = (1 + EB.E_DIV_DD) ** 8 - 1
    # constant (relative u^2), final sum (3u^2 + 13u^3), on magnitudes <= pi/2 while every arm result is >= atan(7/16) > 0.41
    glue = (Fr(1, 2 ** 106) + EB.E_ADD_DD) * Fr(4)       # (pi/2)/0.41 < 4
    rel_atan = eps_k + eps_t * Fr(11, 10) + glue
    # atan2: y/x within 16u^2 (lemma), +-pi added with |result| >= pi/2 > |a|
    rel_atan2 = rel_atan + EB.E_DIV_DD + glue
    L = EB.log2f
    detail = {"kernel_rel": "2^%.2f" % L(eps_k), "transform": "2^%.2f" % L(eps_t), "atan": "2^%.2f" % L(rel_atan), "atan2": "2^%.2f" % L(rel_atan2),
              "lemmas": "operator bounds (C03, C04 conformance), division within 16u^2 (C05, rule R10e), no underflow (|x| >= 2^-400)"}
    rep.check(rel_atan <= Fr(1, 2 ** 70), "R43e", "atan relative error for 2^-400 <= |x| <= 2^60", "errbound:atan",
              "atan's relative error is bounded only by 2^%.2f, the property needs 2^-70" % L(rel_atan), detail=detail)
    rep.check(rel_atan2 <= Fr(1, 2 ** 69), "R43e", "atan2 relative error off the axes", "errbound:atan2",
              "atan2's relative error is bounded only by 2^%.2f, the property needs 2^-69" % L(rel_atan2), detail=detail)

def check_asin_total_error(fx, tab):
    """R43e: asin / acos from the kernel on |z| <= 1/2 and the half-angle branch pi/2 - 2 K(sqrt((1-|x|)/2)) (reference form R45)"""
    from . import errbound as EB
    rep = fx.rep; Fr = _Fr
    X = Fr(1, 2) + Fr(1, 2 ** 60)
    try:
        a, r, e_abs, e_rel = odd_kernel_errors(fx, tab, "asin", X)
    except Exception as e:
        rep.fail("R43e", "asin total error", "errbound:asin", "could not bound the asin kernel: %r" % (e,)); return
    k_abs = a + e_abs
    k_rel = r + e_rel                                    # asin(z)/z >= 1
    # half-angle branch: w = (1 - |x|)/2 (2u^2 + 3u^2), z = sqrt(w) within 32u^2 (C13's statement as a lemma); asin' <= 2/sqrt(3) on z <= 1/2
    eps_z = (1 + 32 * EB.U * EB.U) * (1 + 5 * EB.U * EB.U) - 1
    big_abs = 2 * (k_abs + Fr(116, 100) * X * eps_z) + Fr(2) * (Fr(1, 2 ** 106) + EB.E_ADD_DD + EB.E_MUL_FP)
    asin_abs = max(k_abs, big_abs)
    asin_rel = max(k_rel, big_abs / Fr(52, 100))         # asin(x) >= asin(1/2) > 0.52 in the half-angle branch
    acos_abs = asin_abs + Fr(4) * (Fr(1, 2 ** 106) + EB.E_ADD_DD)
    L = EB.log2f
    detail = {"kernel_abs": "2^%.2f" % L(k_abs), "kernel_rel": "2^%.2f" % L(k_rel), "half_angle_abs": "2^%.2f" % L(big_abs),
              "asin_abs": "2^%.2f" % L(asin_abs), "asin_rel": "2^%.2f" % L(asin_rel), "acos_abs": "2^%.2f" % L(acos_abs),
              "lemmas": "operator bounds (C03, C04), sqrt within 32u^2 (C13's statement), no underflow (|x| >= 2^-400)"}
    rep.check(asin_abs <= Fr(1, 2 ** 45) and asin_rel <= Fr(1, 2 ** 43), "R43e", "asin error on 2^-400 <= |x| <= 1", "errbound:asin",
              "asin's error is bounded only by 2^%.2f absolute / 2^%.2f relative, the property needs 2^-45 / 2^-43" % (L(asin_abs), L(asin_rel)), detail=detail)
    rep.check(acos_abs <= Fr(1, 2 ** 45), "R43e", "acos absolute error on [-1, 1]", "errbound:acos",
              "acos's absolute error is bounded only by 2^%.2f, the property needs 2^-45" % L(acos_abs), detail=detail)

def horner_tables_in(fx):
    tabs = []
    for carr, lo, hi in fx.iterated:
        if carr not in tabs:
            tabs.append(carr)
    return tabs

def check_C17(ctx, rep):
    f = ctx.facts("A")
    fx = Fx(f, rep)
    s, o = param(0), param(1)
    p2 = oracle.dd_named("FRAC_PI_2"); p4 = oracle.dd_named("FRAC_PI_4"); pi = oracle.dd_named("PI")
    a12 = oracle.dd_named("atan(1/2)"); a32 = oracle.dd_named("atan(3/2)")
    PI2 = TFv(*p2); PI4v = TFv(*p4); PIv = TFv(*pi); A12 = TFv(*a12); A32 = TFv(*a32)
    # ---- atan (R44)
    try:
        t, b = fx.tree("TwoFloat::atan")
    except vg.Unsupported as u:
        rep.fail("R44", "TwoFloat::atan", "unsupported:atan", "cannot evaluate atan: %s" % u); t = None
    atan_tab = None
    if t is not None:
        tabs = horner_tables_in(fx)
        if len(tabs) != 1 or not tabs[0][1].startswith("[TwoFloat;"):
            ka_ = None
            for _, lf in vg.leaves(t):
                if lf[0] == "leaf":
                    ka_ = kernel_from_term(lf[1], "odd")
                    if ka_:
                        break
            if ka_:
                tabs = [synth_table(ka_)]
        if len(tabs) != 1:
            rep.fail("R44", "atan kernel", "anchor-lost:atan-kernel", "expected one minimax table reachable from atan, found %d" % len(tabs))
        else:
            atan_tab = tabs[0]
            K = lambda x: k_sin(x, atan_tab)
            x = s.abs()
            k = 4.0 * x + 0.25
            def signed(v):
                return IF(s.is_sign_positive(), RETV(v), RETV(-v))
            def atan_ref(t_):
                arms = IF(tcmp("le", k, 2.0), RETV(K(s)),
                          IF(tcmp("lt", k, 3.0), signed(A12 + K((x - 0.5) / (1.0 + 0.5 * x))),
                             IF(tcmp("lt", k, 5.0), signed(PI4v + K((x - 1.0) / (1.0 + x))),
                                IF(tcmp("lt", k, 10.0), signed(A32 + K((x - 1.5) / (1.0 + 1.5 * x))),
                                   signed(PI2 - K(x.recip()))))))
                return IF(s.is_valid(),
                          IF(f64m("is_infinite", s.hi, "bool").t, IF(f64m("is_sign_positive", s.hi, "bool").t, RETV(PI2), RETV(-PI2)), arms),
                          NAN_LEAF)
            check_ref(fx, "R44", "TwoFloat::atan", atan_ref,
                      "k=4|x|+1/4 thresholds 2,3,5,10 <=> |x| = 7/16, 11/16, 19/16, 39/16; arm constants dd(atan 1/2), dd(pi/4), dd(atan 3/2), dd(pi/2); transform (x-c)/(1+c*x) with the same c; sign restored",
                      odd_tab=atan_tab)
            # reduced argument stays within the kernel interval on each arm (exact rationals)
            from fractions import Fraction as Fr
            worst = Fr(0)
            for c, lo, hi in ((Fr(1, 2), Fr(7, 16), Fr(11, 16)), (Fr(1), Fr(11, 16), Fr(19, 16)), (Fr(3, 2), Fr(19, 16), Fr(39, 16))):
                for xx in (lo, hi):
                    worst = max(worst, abs((xx - c) / (1 + c * xx)))
            worst = max(worst, Fr(16, 39))
            rep.check(worst <= Fr(7, 16), "R44", "atan reduced argument range", "atan-range", "the arm transforms map into |t| <= %s, outside the kernel interval 7/16" % worst,
                      detail="max |t| = %s <= 7/16 (transforms are monotone; endpoints evaluated exactly)" % worst, nontrivial=False)
            check_kernel_approx(fx, "atan", atan_tab, "atan")
            check_atan_total_error(fx, atan_tab)
    # ---- asin / acos (R45)
    try:
        t, b = fx.tree("TwoFloat::asin")
    except vg.Unsupported as u:
        rep.fail("R45", "TwoFloat::asin", "unsupported:asin", "cannot evaluate asin: %s" % u); t = None
    if t is not None:
        tabs = horner_tables_in(fx)
        if len(tabs) != 1 or not tabs[0][1].startswith("[TwoFloat;"):
            ka_ = None
            for _, lf in vg.leaves(t):
                if lf[0] == "leaf":
                    ka_ = kernel_from_term(lf[1], "odd")
                    if ka_:
                        break
            if ka_:
                tabs = [synth_table(ka_)]
        if len(tabs) != 1:
            rep.fail("R45", "asin kernel", "anchor-lost:asin-kernel", "expected one minimax table reachable from asin, found %d" % len(tabs))
        else:
            KA = lambda x: k_sin(x, tabs[0])
            av = s.abs()
            def asin_ref(t_):
                big = PI2 - 2.0 * KA(((1.0 - s.abs()) / 2.0).sqrt())
                return IF(s.is_valid(),
                          IF(tcmp("gt", av, 1.0), NAN_LEAF, IF(tcmp("le", av, 0.5), RETV(KA(s)), IF(s.is_sign_positive(), RETV(big), RETV(-big)))),
                          NAN_LEAF)
            check_ref(fx, "R45", "TwoFloat::asin", asin_ref, "invalid or |x|>1 -> NaN; |x|<=1/2 -> kernel; else pi/2 - 2*kernel(sqrt((1-|x|)/2)) with the sign restored",
                      odd_tab=tabs[0])
            check_kernel_approx(fx, "asin", tabs[0], "asin")
            check_asin_total_error(fx, tabs[0])
    x = s.asin()
    check_ref(fx, "R45", "TwoFloat::acos", IF(x.is_valid(), RETV(PI2 - x), RETV(x)), "pi/2 - asin(x) when that is valid, else the invalid value", keep=("TwoFloat::asin",))
    # ---- atan2 (R46)
    sp = lambda w: f64m("is_sign_positive", w, "bool").t
    a = (s / o).atan()
    ref = IF(fcmp("eq", s.hi, 0.0),
             IF(sp(o.hi), RETV(ZERO_TF), IF(sp(s.hi), RETV(PIv), RETV(-PIv))),
             IF(fcmp("eq", o.hi, 0.0), IF(sp(s.hi), RETV(PI2), RETV(-PI2)),
                IF(sp(o.hi), RETV(a), IF(sp(s.hi), RETV(a + PIv), RETV(a - PIv)))))
    check_ref(fx, "R46", "TwoFloat::atan2", ref, "y==0: x>=+0 -> 0 else +-pi by the sign of y; x==0: +-pi/2; else atan(y/x), +-pi added for x<0 by the sign of y", keep=("TwoFloat::atan",))
    from .rules_c10 import check_delegation_subset
    check_delegation_subset(rep, f, {"asin", "acos", "atan", "atan2"})
    from . import rules_total
    rules_total.totality(rep, f, "R46t", rules_total.entries_C17(), "inverse trigonometric functions", min_sites=0)
    rep.floor("R44-46", len([o2 for o2 in rep.obl if o2["rule"] in ("R44", "R45", "R46")]), 5, "inverse trigonometric functions")

# ====================================================================== C18

def check_C18(ctx, rep):
    f = ctx.facts("A")
    fx = Fx(f, rep)
    s = param(0)
    ep, em = s.exp(), (-s).exp()
    check_ref(fx, "R49", "TwoFloat::cosh", RETV(ep / 2.0 + em / 2.0), "exp(x)/2 + exp(-x)/2")
    check_ref(fx, "R49", "TwoFloat::sinh", RETV(ep / 2.0 - em / 2.0), "exp(x)/2 - exp(-x)/2")
    check_ref(fx, "R49", "TwoFloat::tanh", RETV((ep - em) / (ep + em)), "(e+ - e-)/(e+ + e-)")
    # (the domain guard is part of the form: for a large negative x with a non-zero low word the rounded x + sqrt(x*x - 1) can come
    #  out as a tiny positive number, whose ln is an ordinary finite value - defect D10, fixed)
    check_ref(fx, "R49", "TwoFloat::acosh", IF(tcmp("lt", s, 1.0), NAN_LEAF, RETV((s + (s * s - 1.0).sqrt()).ln())), "x < 1 -> NaN; ln(x + sqrt(x*x - 1))")
    x = s.abs()
    r = (x + (x * x + 1.0).sqrt()).ln()
    check_ref(fx, "R49", "TwoFloat::asinh", IF(s.is_sign_positive(), RETV(r), RETV(-r)), "sign(x) * ln(|x| + sqrt(|x|^2 + 1))")
    check_ref(fx, "R49", "TwoFloat::atanh", RETV(((1.0 + s) / (1.0 - s)).ln() / 2.0), "ln((1+x)/(1-x))/2")
    # R47 conjugate-sum lint: t + sqrt(t*t + c) must have t non-negative where accuracy is demanded
    for ident, domain_excludes_negative in (("TwoFloat::acosh", True), ("TwoFloat::asinh", False)):
        try:
            t, b = fx.tree(ident)
        except vg.Unsupported:
            continue
        if t is None:
            continue
        n_inst = 0
        for path, leaf in vg.leaves(t):
            if leaf[0] != "leaf":
                continue
            for n in all_nodes(leaf[1]):
                if tag(n) == "call" and n[1].startswith("opc:add") and len(n) == 4:
                    for tt, sq in ((n[2], n[3]), (n[3], n[2])):
                        if tag(sq) == "call" and sq[1] == "TwoFloat::sqrt":
                            inner = sq[2]
                            sqr = fx.N.norm((V(tt, "TF") * V(tt, "TF")).t)
                            if any(m is sqr for m in all_nodes(inner)):
                                n_inst += 1
                                nonneg = tag(tt) == "call" and tt[1] == "TwoFloat::abs"
                                rep.check(nonneg or domain_excludes_negative, "R47", "%s: t + sqrt(t*t + c)" % ident, "conjugate-sum:" + ident,
                                          "%s evaluates t + sqrt(t*t + c) with t = %s, which cancels catastrophically for negative t, and its accurate domain includes negative arguments" % (ident, vg.show(tt)[:80]),
                                          where=H.where(b), detail="t = %s (%s)" % (vg.show(tt)[:60], "non-negative by abs()" if nonneg else "domain x >= 1"))
        rep.check(n_inst >= 1, "R47", ident + " conjugate-sum instance", "anchor-lost:conjugate:" + ident, "no t + sqrt(t*t + c) instance found in %s (reason=anchor-lost)" % ident, nontrivial=False)
    # R48 odd symmetry of sinh / tanh / asinh by mirror analysis at operator level
    check_odd(fx, "TwoFloat::sinh")
    check_odd(fx, "TwoFloat::tanh")
    check_tables(fx)     # exp's tables: every hyperbolic function is a combination of exp / ln
    from .rules_c10 import check_delegation_subset
    check_delegation_subset(rep, f, {"sinh", "cosh", "tanh", "asinh", "acosh", "atanh"})
    rep.floor("R49", len([o for o in rep.obl if o["rule"] == "R49"]), 6, "hyperbolic definitions")
    from . import rules_total
    rules_total.totality(rep, f, "R50", rules_total.entries_C18(), "hyperbolic family", min_sites=0)

def check_odd(fx, ident):
    """f(-x) == -f(x) by normalisation: substitute -x, use the operator-level lemmas
    (-a)-(-b) = -(a-b), (-a)/b = -(a/b), a-b = -(b-a), exp(-(-x)) = exp(x) (all value-exact; zero signs aside)."""
    rep = fx.rep
    try:
        t, b = fx.tree(ident)
    except vg.Unsupported as u:
        rep.fail("R48", ident, "unsupported:" + ident, "cannot evaluate %s: %s" % (ident, u)); return
    if t is None or t[0] != "leaf":
        rep.fail("R48", ident, "not-straight:" + ident, "%s is not a single expression" % ident); return
    from .terms import rebuild
    NEGN = "op:neg:TwoFloat:TwoFloat"
    def sgn(term):
        """(negated?, magnitude) under the odd/even lemmas"""
        memo = {}
        def go(n):
            if n in memo:
                return memo[n]
            tg = tag(n)
            r = (False, n)
            if tg == "call" and n[1] == NEGN:
                s1, m = go(n[2]); r = (not s1, m)
            elif tg == "call" and (n[1].startswith("op:sub:")) and len(n) == 4:
                (sa, a), (sb, bb) = go(n[2]), go(n[3])
                # canonical: a - b with a.digest <= b.digest else -(b - a)
                ta = a if not sa else None
                x = (sa, a); y = (not sb, bb)         # a + (-b)
                r = canon_sum(x, y)
            elif tg == "call" and n[1].startswith("opc:add") and len(n) == 4:
                r = canon_sum(go(n[2]), go(n[3]))
            elif tg == "call" and (n[1].startswith("op:div:") or n[1].startswith("opc:mul")) and len(n) == 4:
                (sa, a), (sb, bb) = go(n[2]), go(n[3])
                r = (sa != sb, mk("call", n[1], a, bb))
            elif tg == "call" and n[1] == "TwoFloat::exp" and len(n) == 3:
                s1, m = go(n[2])
                r = (False, mk("call", "TwoFloat::exp", mk("call", NEGN, m) if s1 else m))
            elif tg == "const":
                r = (False, n)
            memo[n] = r
            return r
        def canon_sum(x, y):
            (sx, mx), (sy, my) = x, y
            if norm.digest(mx) > norm.digest(my):
                (sx, mx), (sy, my) = (sy, my), (sx, mx)
            if sx:
                return (True, mk("sum", mx, not sy, my))
            return (False, mk("sum", mx, sy, my))
        return go(term)
    v = t[1]
    def sub_neg(a):
        if a[0] == "param" and a[1] == 0:
            return mk("call", NEGN, mk("param", 0))
        return mk(*a)
    v_neg = fx.N.norm(rebuild(v, sub_neg, {}))
    s1, m1 = sgn(v); s2, m2 = sgn(v_neg)
    rep.check(m1 is m2 and s1 != s2, "R48", ident + " odd symmetry", "odd:" + ident,
              "%s(-x) does not normalise to -%s(x): %s vs %s" % (ident, ident, vg.show(m2)[:200], vg.show(m1)[:200]), where=H.where(b),
              detail="f(-x) = -f(x) by the operator-level lemmas (algebra Z)", algebra="Z")

# ---------------------------------------------------------------- R26 powi loop structure (havoc analysis)

def powi_indexed_loop(fx, rep, b, g, hv_of, rng, one, s, fail):
    """The same binary exponentiation driven by a bit index instead of a consumed exponent:
           for k in 0..E { if (N >> k) & 1 != 0 { R *= V }; V *= V }   with N = |n| and E = 32 - leading_zeros(N) (or 32)
    performs the reference loop's multiplications into R in the same order with the same V = x^(2^k) (the reference stops when
    N >> k == 0, i.e. after bit_length(N) passes; passes over zero high bits leave R alone), so R is bit-identical."""
    N = fx.N
    K, E = rng[2]
    kty = K[2]
    N0 = mk("call", "core::num::<impl i32>::unsigned_abs", P(1))
    if kty != "u32":
        return fail("the bit index is not a u32")
    e_ok = E is mk("i", "sub", "u32", mk("const", "u32", 32), mk("call", "core::num::<impl u32>::leading_zeros", N0)) or E is mk("const", "u32", 32)
    if not e_ok:
        return fail("the bit index does not run up to the bit length of |n|: %s" % vg.show(E)[:120])
    bit = mk("i", "bitand", "u32", mk("i", "shr", "u32", N0, K), mk("const", "u32", 1))
    zero32 = mk("const", "i32", 0)
    SEL = (mk("cmp", "gt", "i32", P(1), zero32), mk("cmp", "ge", "i32", P(1), zero32), mk("cmp", "lt", "i32", P(1), zero32), mk("cmp", "le", "i32", P(1), zero32))
    paths = []; err = []
    def walk(t, fa):
        if err:
            return
        if t[0] == "backedge":
            paths.append((dict(fa), "back", t[3])); return
        if t[0] != "if":
            err.append("loop body reaches %s" % t[0]); return
        c = t[1]
        if tag(c) == "cmp" and c[2] == "u32" and c[3] is K and c[4] is E and c[1] in ("lt", "ge"):
            more = (c[1] == "lt")
            walk(t[2], dict(fa, more=more)); walk(t[3], dict(fa, more=not more)); return
        if tag(c) == "cmp" and c[3] is bit and tag(c[4]) == "const" and c[1] in ("eq", "ne") and c[4][2] in (0, 1):
            setv = (c[1] == "ne") == (c[4][2] == 0)
            walk(t[2], dict(fa, bit=setv)); walk(t[3], dict(fa, bit=not setv)); return
        if c in SEL:
            rpos, rneg = (t[2], t[3]) if c[1] in ("gt", "ge") else (t[3], t[2])
            if rpos[0] != "leaf" or rneg != ("leaf", N.norm(mk("call", "TwoFloat::recip", rpos[1])), ()):
                err.append("exit is not `n > 0 ? result : recip(result)`"); return
            paths.append((dict(fa), "exit", rpos[1])); return
        err.append("the loop tests something other than the bit index against its end, the indexed bit of |n| and the sign of n: %s" % vg.show(c)[:160])
    walk(g, {})
    if err:
        return fail(err[0])
    backs = [p_ for p_ in paths if p_[1] == "back"]; exits = [p_ for p_ in paths if p_[1] == "exit"]
    if not backs or not exits:
        return fail("no loop over the bits of the exponent")
    def after(snap, hv):
        l = hv_of[hv][0]
        for ll, v in snap:
            if ll == l:
                return v
    Vv = None
    for hv in hv_of:
        if tag(hv) == "havoc" and hv[2] == "TwoFloat" and after(backs[0][2], hv) is N.norm(mk("call", "op:mul:TwoFloat:TwoFloat", hv, hv)):
            Vv = hv
    Rs = [hv for hv in hv_of if tag(hv) == "havoc" and hv[2] == "TwoFloat" and hv is not Vv]
    if Vv is None or len(Rs) != 1:
        return fail("no squared value / single accumulator among the loop variables")
    R = Rs[0]
    sq = N.norm(mk("call", "op:mul:TwoFloat:TwoFloat", Vv, Vv)); RV = N.norm(mk("call", "op:mul:TwoFloat:TwoFloat", R, Vv))
    nxt = mk("agg", rng[1], (mk("i", "add", "u32", K, mk("const", "u32", 1)), E))
    for fa, kind, x in paths:
        if kind == "back":
            if fa.get("more") is not True or fa.get("bit") is None:
                return fail("an iteration does not test the bit index and the indexed bit")
            conds = [after(x, R) is (RV if fa["bit"] else R), after(x, Vv) is sq, after(x, rng) is nxt]
            if not all(conds):
                return fail("iteration is not { if bit k of |n| { result *= value }; value *= value; k += 1 } (%s)" % conds)
        else:
            if fa.get("more") is not False or x is not R:
                return fail("the loop is left before the last bit, or does not return the accumulated product")
    init_ok = hv_of[R][1] is one and hv_of[Vv][1] is s and hv_of[rng][1] is mk("agg", rng[1], (mk("const", "u32", 0), E))
    if not init_ok:
        return fail("initial state is not (result, value, k) = (1, self, 0)")
    rep.ok("R26", "powi square-and-multiply loop", detail="(result, value) = (1, self); for k in 0..bit_length(|n|) { if bit k of |n| { result *= value }; value *= value }; n > 0 ? result : recip(result) -- %d back edges, %d exits conform" % (len(backs), len(exits)))
    return True

def check_powi_loop(fx):
    rep = fx.rep; f = fx.f
    b = f.get("TwoFloat::powi")
    if b is None:
        return
    N = fx.N
    s = P(0)
    one = N.norm(TFv(1.0, 0.0).t)
    recip = N.norm(mk("call", "TwoFloat::recip", s))
    # special cases by specialising the exponent to a constant (all tests on n fold)
    want = {0: IF(fcmp("eq", V(s, "TF").hi, 0.0), IF(fcmp("eq", V(s, "TF").lo, 0.0), STRICT_NAN_LEAF, ("leaf", one, ())), ("leaf", one, ())),
            1: ("leaf", s, ()), -1: ("leaf", recip, ())}
    oks = {}
    for n, ref in want.items():
        ex1 = vg.Exec(f, vg.Policy(f, "op", keep=H.primitive_idents(f), inline_private=True), loops="havoc")
        try:
            tn = ex1.run_body(b, args=[None, mk("const", "i32", vg.from_signed("i32", n))])
            tn = D.map_terms(tn, N.norm)
            oks[n] = D.equivalent(tn, D.map_terms(ref, N.norm), leaf_eq_nan) is None
        except (vg.Unsupported, RuntimeError):
            oks[n] = False
    rep.check(all(oks.values()), "R26", "powi special cases n = 0, 1, -1", "powi-special",
              "powi special cases deviate: n=0 -> (0^0 ? NaN : 1) %s; n=1 -> self %s; n=-1 -> 1/self %s" % (oks.get(0), oks.get(1), oks.get(-1)), where=H.where(b),
              detail="0 -> NaN for 0^0 else 1; 1 -> self; -1 -> recip(self)")
    # the loop may sit in a private helper of powi (`fn powu(self, n: u32)` called with |n|): such a helper - crate-local, reached by a
    # direct call from powi, not an operator, not part of the named API - is read in place, loop included (what powi computes through
    # it is what it computes); its loop variables are then the ones examined below
    loop_helpers = []
    pol0 = vg.Policy(f, "op")
    for blk in b.mir["blocks"]:
        tt = blk["t"]
        if tt["k"] == "call":
            r = (tt.get("f") or {}).get("res") or {}
            cb = f.by_key.get(r.get("key")) if r.get("local") else None
            if cb is not None and cb.key != b.key and cb.kind != "Closure" and cb.trait is None and cb.ident() not in vg.NAMED_API \
                    and pol0.op_of(cb) is None and pol0.has_loop_or_recursion(cb) and cb.ident() not in loop_helpers:
                loop_helpers.append(cb.ident())
    ex = vg.Exec(f, vg.Policy(f, "op", keep=H.primitive_idents(f), inline_private=True, inline_extra=tuple(loop_helpers)), loops="havoc")
    try:
        t = ex.run_body(b)
    except vg.Unsupported as u:
        rep.fail("R26", "powi loop", "unsupported:powi", "cannot analyse powi: %s" % u, where=H.where(b)); return
    t = vg.map_tree(t, N.norm)
    def fail(msg):
        rep.fail("R26", "powi square-and-multiply loop", "powi-loop", "powi's general case is not binary exponentiation on |n| followed by an optional reciprocal: " + msg, where=H.where(b),
                 data={"tree": vg.show(t)[:3000]})
    # walk to the loop: follow the branch an exponent outside {0, 1, -1} takes
    def only_exponent(c):
        ns = [n for n in all_nodes(c) if tag(n) in ("param", "havoc", "field", "call")]
        return all(n is P(1) for n in ns if tag(n) == "param") and not any(tag(n) in ("havoc", "field", "call") for n in ns) and any(n is P(1) for n in ns)
    g = t
    for _ in range(12):
        if g[0] == "switch" and g[1] is P(1):
            g = g[3]; continue
        if g[0] == "if" and tag(g[1]) == "cmp" and g[1][1] in ("eq", "ne") and only_exponent(g[1]):
            g = g[3] if g[1][1] == "eq" else g[2]; continue
        if g[0] == "if" and ("unreachable",) in (g[2], g[3]):
            g = g[3] if g[2] == ("unreachable",) else g[2]; continue      # an assumed debug assertion
        break
    entries = [e for e in ex.loop_entries if e[0] == b.ident()] or [e for e in ex.loop_entries if e[0] in loop_helpers]
    if not entries:
        return fail("no loop found")
    if len({(e[0], e[1]) for e in ex.loop_entries}) != 1:
        return fail("more than one loop on the way from powi's entry to its result")
    entry = entries[0][2]
    hv_of = {hv: (l, before) for l, (before, hv) in entry.items()}
    UTYS = ("u32", "u64", "u128", "usize")      # unsigned counter types that hold |i32::MIN|
    def uconst(t, v):
        return tag(t) == "const" and t[1] in UTYS and t[2] == v
    # One pass of the loop from its head, state (R, V, N) arbitrary, as a tree over tests of N alone.  The reference iteration is
    #     while N > 0 { if N & 1 != 0 { R *= V }; V *= V; N >>= 1 }   then   n > 0 ? R : recip(R)
    # and a pass conforms when every path either goes round with the reference update (and has tested that exponent bits remain), or
    # leaves with the value the reference would return: R when N == 0, (N & 1 ? R * V : R) when N >> 1 == 0 (the reference's last
    # squaring is dead).
    Ns = [hv for hv in hv_of if tag(hv) == "havoc" and hv[2] in UTYS]
    rngs = [hv for hv in hv_of if tag(hv) == "agg" and hv[1][0] == "adt" and hv[1][1].endswith("ops::Range") and len(hv[2]) == 2 and tag(hv[2][0]) == "havoc"]
    if not Ns and len(rngs) == 1:
        return powi_indexed_loop(fx, rep, b, g, hv_of, rngs[0], one, s, fail)
    if len(Ns) != 1:
        return fail("no single unsigned loop variable holds the remaining exponent")
    Nn = Ns[0]; cty = Nn[2]
    low = mk("i", "bitand", cty, Nn, mk("const", cty, 1))
    half = mk("i", "shr", cty, Nn, mk("const", "u32", 1))
    def pos_test(c):
        """(which, polarity): c true  <=>  X > 0 (polarity True) or X == 0 (False), X the remaining exponent ("n") or its half ("h")"""
        if tag(c) == "cmp" and (c[3] is Nn or c[3] is half) and uconst(c[4], 0) and c[4][1] == cty:
            w = "n" if c[3] is Nn else "h"
            if c[1] in ("gt", "ne"):
                return w, True
            if c[1] in ("eq", "le"):
                return w, False
        return None, None
    def bit_test(c):
        if tag(c) == "cmp" and c[3] is low:
            if (c[1] == "ne" and uconst(c[4], 0)) or (c[1] == "eq" and uconst(c[4], 1)):
                return True
            if (c[1] == "eq" and uconst(c[4], 0)) or (c[1] == "ne" and uconst(c[4], 1)):
                return False
        return None
    zero32 = mk("const", "i32", 0)
    SEL = (mk("cmp", "gt", "i32", P(1), zero32), mk("cmp", "ge", "i32", P(1), zero32), mk("cmp", "lt", "i32", P(1), zero32), mk("cmp", "le", "i32", P(1), zero32))
    paths = []      # (facts, "back" | "exit", snapshot | result term)
    err = []
    def walk(g, fa):
        if err:
            return
        if fa.get("n") is False and (fa.get("bit") or fa.get("h")):
            return      # N == 0 has no bits
        if g[0] == "backedge":
            paths.append((dict(fa), "back", g[3])); return
        if g[0] != "if":
            err.append("loop body reaches %s" % g[0]); return
        c = g[1]
        w, pol = pos_test(c)
        if w is not None:
            if fa.get(w) is None:
                walk(g[2], dict(fa, **{w: pol})); walk(g[3], dict(fa, **{w: not pol}))
            else:
                walk(g[2] if fa[w] == pol else g[3], fa)
            return
        bt = bit_test(c)
        if bt is not None:
            if fa.get("bit") is None:
                walk(g[2], dict(fa, bit=bt)); walk(g[3], dict(fa, bit=not bt))
            else:
                walk(g[2] if fa["bit"] == bt else g[3], fa)
            return
        if c in SEL:
            rpos, rneg = (g[2], g[3]) if c[1] in ("gt", "ge") else (g[3], g[2])
            if rpos[0] != "leaf" or rneg != ("leaf", N.norm(mk("call", "TwoFloat::recip", rpos[1])), ()):
                err.append("exit is not `n > 0 ? result : recip(result)`"); return
            paths.append((dict(fa), "exit", rpos[1])); return
        err.append("the loop tests something other than the remaining exponent (its sign, its low bit, its half) and the sign of n: %s" % vg.show(c)[:160])
    walk(g, {})
    if err:
        return fail(err[0])
    backs = [p_ for p_ in paths if p_[1] == "back"]; exits = [p_ for p_ in paths if p_[1] == "exit"]
    if not backs or not exits:
        return fail("no loop on the remaining exponent")
    def after(snap, hv):
        l = hv_of[hv][0]
        for ll, v in snap:
            if ll == l:
                return v
    # the squared value: the loop variable V with V' = V*V on the back edges; the accumulator: the other TwoFloat one
    Vv = None
    for hv in hv_of:
        if hv is not Nn and after(backs[0][2], hv) is N.norm(mk("call", "op:mul:TwoFloat:TwoFloat", hv, hv)):
            Vv = hv
    if Vv is None:
        return fail("no variable is squared on every iteration")
    Rs = [hv for hv in hv_of if hv is not Nn and hv is not Vv and hv[2] == "TwoFloat"]
    if len(Rs) != 1:
        return fail("no single accumulator")
    R = Rs[0]
    sq = N.norm(mk("call", "op:mul:TwoFloat:TwoFloat", Vv, Vv))
    RV = N.norm(mk("call", "op:mul:TwoFloat:TwoFloat", R, Vv))
    for fa, kind, x in paths:
        if kind == "back":
            if not (fa.get("n") or fa.get("h")):
                return fail("an iteration goes round without having tested that exponent bits remain")
            if fa.get("bit") is None:
                return fail("an iteration does not test the low bit of the remaining exponent")
            conds = [after(x, R) is (RV if fa["bit"] else R), after(x, Vv) is sq, after(x, Nn) is half]
            if not all(conds):
                return fail("iteration is not { if bit { result *= value }; value *= value; n >>= 1 } (%s)" % conds)
        else:
            if fa.get("n") is False:
                want_x = R
            elif fa.get("h") is False and fa.get("bit") is not None:
                want_x = RV if fa["bit"] else R
            else:
                return fail("the loop is left while exponent bits may remain")
            if x is not want_x:
                return fail("the value returned when the exponent is used up is not the accumulated product: %s" % vg.show(x)[:200])
    n0 = hv_of[Nn][1]
    if tag(n0) == "cast" and n0[1] == "IntToInt" and n0[2] == "u32" and n0[3] == cty and vg.INT_BITS[cty] >= 32:
        n0 = n0[4]      # lossless widening of |n|
    init_ok = hv_of[R][1] is one and hv_of[Vv][1] is s and tag(n0) == "call" and n0[1] == "core::num::<impl i32>::unsigned_abs" and n0[2] is P(1)
    if not init_ok:
        return fail("initial state is not (result, value, remaining) = (1, self, |n| without overflow): %s, %s, %s" % (vg.show(hv_of[R][1]), vg.show(hv_of[Vv][1]), vg.show(hv_of[Nn][1])))
    rep.ok("R26", "powi square-and-multiply loop", detail="(result, value, k) = (1, self, unsigned_abs(n)); while k > 0 { if k&1 != 0 { result *= value }; value *= value; k >>= 1 }; n > 0 ? result : recip(result) -- %d back edges, %d exits conform" % (len(backs), len(exits)))
    return True
