"""Rigorous sup-norm bounds for the polynomial kernels (R43 / R43').

Everything is exact rational arithmetic: the kernel polynomial's coefficients are the table's
exact values hi+lo, the target function is replaced by a Taylor polynomial in u = x^2 with an
analytic tail bound, and sup |Q| of the difference polynomial is taken over its critical points,
isolated with sympy's exact real-root isolation.  This bounds the *approximation* error of the
polynomial, not the rounding error of its double-double evaluation."""
import math
from fractions import Fraction
import sympy

_x = sympy.Symbol("x")

def peval(c, u):
    r = Fraction(0)
    for k in reversed(c):
        r = r * u + k
    return r

def sup_abs(c, a, b):
    """upper bound of sup_{[a,b]} |sum c_k u^k| (c ascending, Fractions)"""
    c = list(c)
    while c and c[-1] == 0:
        c.pop()
    if not c:
        return Fraction(0)
    pts = [a, b]
    slack = Fraction(0)
    if len(c) > 1:
        dc = [k * c[k] for k in range(1, len(c))]
        Q1 = sympy.Poly([sympy.Rational(k.numerator, k.denominator) for k in reversed(dc)], _x)
        if Q1.degree() > 0:
            eps = sympy.Rational(1, 10 ** 40)
            M = max(abs(a), abs(b))
            lip = sum(abs(k) * (M ** i) for i, k in enumerate(dc))
            for (l, r), m in Q1.intervals(eps=eps):
                l = Fraction(int(l.p), int(l.q)); r = Fraction(int(r.p), int(r.q))
                if r < a or l > b:
                    continue
                l = max(l, a); r = min(r, b)
                pts += [l, r]
                slack = max(slack, (r - l) * lip)
    return max(abs(peval(c, u)) for u in pts) + slack

def taylor_u(kind, n):
    """coefficients (ascending in u = x^2) of f(x)/x (odd f) or f(x) (cos), n+1 terms, and a
    function tail(U) bounding the remainder on [0, U]"""
    if kind == "sin":
        c = [Fraction((-1) ** k, math.factorial(2 * k + 1)) for k in range(n + 1)]
        tail = lambda U: U ** (n + 1) / math.factorial(2 * n + 3)
    elif kind == "cos":
        c = [Fraction((-1) ** k, math.factorial(2 * k)) for k in range(n + 1)]
        tail = lambda U: U ** (n + 1) / math.factorial(2 * n + 2)
    elif kind == "atan":
        c = [Fraction((-1) ** k, 2 * k + 1) for k in range(n + 1)]
        tail = lambda U: U ** (n + 1) / (2 * n + 3)
    elif kind == "asin":
        c = [Fraction(math.factorial(2 * k), (4 ** k) * math.factorial(k) ** 2 * (2 * k + 1)) for k in range(n + 1)]
        tail = lambda U: U ** (n + 1) / (1 - U)          # coefficients <= 1, U < 1
    elif kind == "tan":
        a = [Fraction(0)] * (2 * n + 3)
        a[1] = Fraction(1)
        # y' = 1 + y^2
        for m in range(1, 2 * n + 2):
            s = sum(a[i] * a[m - i] for i in range(0, m + 1))
            a[m + 1] = s / (m + 1)
        c = [a[2 * k + 1] for k in range(n + 1)]
        # t_k <= (4/pi^2)^k  (partial-fraction expansion of tan); pi^2 > 9.8696
        rr = lambda U: 4 * U / Fraction(98696, 10000)
        tail = lambda U: rr(U) ** (n + 1) / (1 - rr(U))
    else:
        raise ValueError(kind)
    return c, tail

def kernel_poly(kind, coeffs):
    """coefficients in u of P(x)/x (odd kernels x*(1 + u*H(u))) or of P(x) (cos: 1 + u*(-1/2 + u*H(u)))"""
    if kind == "cos":
        return [Fraction(1), Fraction(-1, 2)] + list(coeffs)
    return [Fraction(1)] + list(coeffs)

def kernel_error(kind, coeffs, X, nterms=40):
    """(abs_bound, rel_bound) of the kernel against its function on |x| <= X (Fractions)"""
    U = X * X
    P = kernel_poly(kind, coeffs)
    T, tail = taylor_u(kind, nterms)
    n = max(len(P), len(T))
    Q = [(P[i] if i < len(P) else 0) - (T[i] if i < len(T) else 0) for i in range(n)]
    s = sup_abs(Q, Fraction(0), U) + tail(U)
    if kind == "cos":
        return s, None
    # absolute error of an odd kernel: sup over x of |x * Q(x^2)| (tighter than X * sup|Q|)
    Qx = []
    for c in Q:
        Qx += [Fraction(0), c]
    s_abs = sup_abs(Qx, Fraction(0), X) + X * tail(U)
    # odd kernels: |P - f| <= X * s ;  |P/f - 1| <= s / inf(f(x)/x)
    if kind == "sin":
        inf_ratio = 1 - U / 6
    elif kind == "atan":
        inf_ratio = 1 - U / 3
    else:            # tan(x)/x >= 1, asin(x)/x >= 1
        inf_ratio = Fraction(1)
    return s_abs, s / inf_ratio
