"""Rigorous sup-norm bounds for the polynomial kernels (R43 / R43').

Everything is exact rational arithmetic: the kernel polynomial's coefficients are the table's
exact values hi+lo, the target function is replaced by a Taylor polynomial in u = x^2 with an
analytic tail bound, and sup |Q| of the difference polynomial is taken over its critical points,
isolated with sympy's exact real-root isolation.  This bounds the *approximation* error of the
polynomial, not the rounding error of its double-double evaluation."""
import math
from fractions import Fraction

def peval(c, u):
    r = Fraction(0)
    for k in reversed(c):
        r = r * u + k
    return r

def _ieval(c, lo, hi):
    """interval Horner: enclosure of sum c_k u^k over [lo, hi] (exact rationals)"""
    rl = rh = Fraction(0)
    for k in reversed(c):
        # [rl, rh] * [lo, hi]
        p = (rl * lo, rl * hi, rh * lo, rh * hi)
        rl, rh = min(p) + k, max(p) + k
    return rl, rh

def sup_abs_bb(c, a, b, max_boxes=6000):
    """rigorous upper bound of sup_{[a,b]} |sum c_k u^k| (c ascending, Fractions) by adaptive
    subdivision with the mean-value form  Q(I) <= Q(m) + Q'(I) (I - m); bounded work, no root
    finding (the bound only gets looser, never wrong, when the budget runs out)."""
    import heapq
    c = list(c)
    while c and c[-1] == 0:
        c.pop()
    if not c:
        return Fraction(0)
    dc = [k * c[k] for k in range(1, len(c))]
    def enclose(lo, hi):
        m = (lo + hi) / 2
        qm = peval(c, m)
        if not dc:
            return abs(qm)
        dl, dh = _ieval(dc, lo, hi)
        r = (hi - lo) / 2
        return abs(qm) + max(abs(dl), abs(dh)) * r
    best_lower = max(abs(peval(c, a)), abs(peval(c, b)))
    heap = []
    n0 = 16
    for i in range(n0):
        lo = a + (b - a) * i / n0; hi = a + (b - a) * (i + 1) / n0
        heapq.heappush(heap, (-enclose(lo, hi), i, lo, hi))
    cnt = n0
    while heap and cnt < max_boxes:
        ub, _, lo, hi = heap[0]
        ub = -ub
        m = (lo + hi) / 2
        best_lower = max(best_lower, abs(peval(c, m)))
        # stop when the enclosure is within 1% of a value actually attained
        if ub <= best_lower * Fraction(101, 100) or ub == 0:
            break
        heapq.heappop(heap)
        for l2, h2 in ((lo, m), (m, hi)):
            cnt += 1
            heapq.heappush(heap, (-enclose(l2, h2), cnt, l2, h2))
    return -heap[0][0] if heap else best_lower

class _Timeout(Exception):
    pass

def _critical_intervals(g, a, b, seconds=20):
    """isolating intervals (Fractions) of the real roots of sum g_k u^k inside [a, b], refined by
    exact bisection; raises _Timeout / ValueError when sympy's isolation does not finish in time"""
    import signal, sympy
    g = list(g)
    while g and g[-1] == 0:
        g.pop()
    if len(g) <= 1:
        return []
    x = sympy.Symbol("x")
    pl = sympy.Poly([sympy.Rational(k.numerator, k.denominator) for k in reversed(g)], x)
    def handler(sig, frm):
        raise _Timeout()
    use_alarm = True
    try:
        old = signal.signal(signal.SIGALRM, handler)
        signal.alarm(seconds)
    except ValueError:
        use_alarm = False      # not in the main thread
    try:
        ivs = pl.intervals()
    finally:
        if use_alarm:
            signal.alarm(0)
            signal.signal(signal.SIGALRM, old)
    out = []
    for (l, r), m in ivs:
        l = Fraction(int(l.p), int(l.q)); r = Fraction(int(r.p), int(r.q))
        if r < a or l > b:
            continue
        if l < r:
            sl = peval(g, l)
            for _ in range(70):
                m2 = (l + r) / 2
                sm = peval(g, m2)
                if sm == 0:
                    l = r = m2; break
                if (sm > 0) == (sl > 0):
                    l, sl = m2, sm
                else:
                    r = m2
        out.append((max(l, a), min(r, b)))
    return out

def _sqrt_upper(q):
    """a rational s with s*s >= q"""
    import math
    if q <= 0:
        return Fraction(0)
    s = Fraction(math.sqrt(float(q))) * Fraction(1000001, 1000000)
    while s * s < q:
        s *= Fraction(1000001, 1000000)
    return s

def sup_abs(c, a, b):
    """upper bound of sup_{[a,b]} |Q(u)|: exact critical points (fallback: branch and bound)"""
    c = list(c)
    while c and c[-1] == 0:
        c.pop()
    if not c:
        return Fraction(0)
    dc = [k * c[k] for k in range(1, len(c))]
    try:
        ivs = _critical_intervals(dc, a, b)
    except Exception:
        return sup_abs_bb(c, a, b)
    M = max(abs(a), abs(b))
    lip = sum(abs(k) * (M ** i) for i, k in enumerate(dc))
    best = max(abs(peval(c, a)), abs(peval(c, b)))
    for l, r in ivs:
        best = max(best, max(abs(peval(c, l)), abs(peval(c, r))) + (r - l) * lip)
    return best

def sup_abs_xq(c, U):
    """upper bound of sup_{0 <= x <= sqrt(U)} |x * Q(x^2)|; critical points satisfy Q(u) + 2 u Q'(u) = 0"""
    c = list(c)
    while c and c[-1] == 0:
        c.pop()
    if not c:
        return Fraction(0)
    dc = [k * c[k] for k in range(1, len(c))]
    g = [(c[i] if i < len(c) else 0) + 2 * (dc[i - 1] if 1 <= i <= len(dc) else 0) for i in range(len(c))]
    try:
        ivs = _critical_intervals(g, Fraction(0), U)
    except Exception:
        return _sqrt_upper(U) * sup_abs_bb(c, Fraction(0), U)
    lip = sum(abs(k) * (U ** i) for i, k in enumerate(dc))
    best = _sqrt_upper(U) * abs(peval(c, U))
    for l, r in ivs:
        best = max(best, _sqrt_upper(r) * (max(abs(peval(c, l)), abs(peval(c, r))) + (r - l) * lip))
    return best

def taylor_u(kind, n):
    """coefficients (ascending in u = x^2) of f(x)/x (odd f) or f(x) (cos), n+1 terms, and a
    function tail(U) bounding the remainder on [0, U]"""
    if kind == "sin":
        c = [Fraction((-1) ** k, math.factorial(2 * k + 1)) for k in range(n + 1)]
        tail = lambda U: U ** (n + 1) / math.factorial(2 * n + 3)
    elif kind == "cos":
        c = [Fraction((-1) ** k, math.factorial(2 * k)) for k in range(n + 1)]
        tail = lambda U: U ** (n + 1) / math.factorial(2 * n + 2)
    elif kind == "atan":
        c = [Fraction((-1) ** k, 2 * k + 1) for k in range(n + 1)]
        tail = lambda U: U ** (n + 1) / (2 * n + 3)
    elif kind == "asin":
        c = [Fraction(math.factorial(2 * k), (4 ** k) * math.factorial(k) ** 2 * (2 * k + 1)) for k in range(n + 1)]
        tail = lambda U: U ** (n + 1) / (1 - U)          # coefficients <= 1, U < 1
    elif kind == "tan":
        a = [Fraction(0)] * (2 * n + 3)
        a[1] = Fraction(1)
        # y' = 1 + y^2
        for m in range(1, 2 * n + 2):
            s = sum(a[i] * a[m - i] for i in range(0, m + 1))
            a[m + 1] = s / (m + 1)
        c = [a[2 * k + 1] for k in range(n + 1)]
        # t_k <= (4/pi^2)^k  (partial-fraction expansion of tan); pi^2 > 9.8696
        rr = lambda U: 4 * U / Fraction(98696, 10000)
        tail = lambda U: rr(U) ** (n + 1) / (1 - rr(U))
    else:
        raise ValueError(kind)
    return c, tail

def kernel_poly(kind, coeffs):
    """coefficients in u of P(x)/x (odd kernels x*(1 + u*H(u))) or of P(x) (cos: 1 + u*(-1/2 + u*H(u)))"""
    if kind == "cos":
        return [Fraction(1), Fraction(-1, 2)] + list(coeffs)
    return [Fraction(1)] + list(coeffs)

def kernel_error(kind, coeffs, X, nterms=40):
    """(abs_bound, rel_bound) of the kernel against its function on |x| <= X (Fractions)"""
    U = X * X
    P = kernel_poly(kind, coeffs)
    T, tail = taylor_u(kind, nterms)
    n = max(len(P), len(T))
    Q = [(P[i] if i < len(P) else 0) - (T[i] if i < len(T) else 0) for i in range(n)]
    s = sup_abs(Q, Fraction(0), U) + tail(U)
    if kind == "cos":
        return s, None
    # absolute error of an odd kernel: sup over x of |x * Q(x^2)| (tighter than X * sup|Q|)
    s_abs = sup_abs_xq(Q, U) + X * tail(U)
    # odd kernels: |P - f| <= X * s ;  |P/f - 1| <= s / inf(f(x)/x)
    if kind == "sin":
        inf_ratio = 1 - U / 6
    elif kind == "atan":
        inf_ratio = 1 - U / 3
    else:            # tan(x)/x >= 1, asin(x)/x >= 1
        inf_ratio = Fraction(1)
    return s_abs, s / inf_ratio
