"""D-linked discharges: reviewed one-line numeric arguments with machine-checked side conditions.

Entries are matched by the *shape of the path condition*, not by function names or positions, so
renaming or moving the helper keeps them valid, while changing a literal or the shape of the
reduction invalidates them (the site is then reported as open)."""
import math
from . import vg, norm
from .terms import mk, tag, all_nodes

def _f64(t):
    import struct
    return struct.unpack("<d", struct.pack("<Q", t[2]))[0]

def match_exp_reduction(cond, st, hooks):
    """explicit panic guarded by  !( |z.hi| < c )  with z = x - round(2*x.hi)/2  (TwoFloat - f64).

    Argument: y = round(2 x.hi) gives |x.hi - y/2| <= 1/4 exactly; x - y/2 is DWPlusFP (relative
    error <= 2u^2) of a value of magnitude <= 1/4 + |x.lo| <= 1/4 + ulp(x.hi)/2, so
    |z.hi| <= 1/4 + 2^-43 whenever |x.hi| < 2^10.  Side conditions checked here:
    c >= 1/4 + 2^-40, the operand has exactly this shape, and the path bounds |x.hi| < 1024."""
    from .panics import Facts
    for c, v in st.known.items():
        if v != 0 or tag(c) != "cmp" or c[1] != "lt" or tag(c[4]) != "const":
            continue
        a = c[3]
        if not (tag(a) == "call" and a[1] in ("core::f64::<impl f64>::abs", "libm::fabs")):
            continue
        z = a[2]
        if not (tag(z) == "field" and z[2] == 0 and tag(z[1]) == "call" and z[1][1] == "op:sub:TwoFloat:f64"):
            continue
        x, h = z[1][2], z[1][3]
        two = vg.f64c(2.0)
        xhi = mk("field", x, 0)
        want = mk("f", "div", mk("call", "libm::round", mk("f", "mul", two, xhi)), two)
        nz = norm.Normalizer("E")
        if nz.norm(h) is not nz.norm(want):      # y / 2.0 and y * 0.5 are the same f64
            continue
        cv = _f64(c[4])
        if not (cv >= 0.25 + 2.0 ** -40):
            continue
        fx = Facts({k: w for k, w in st.known.items() if k is not c}, hooks.ptypes)
        b = fx.bounds(xhi)
        if b.nan or not (b.lo > -1024.0 and b.hi < 1024.0):
            continue
        return True
    return False

def match_wide_tryfrom(cond, st, hooks):
    """integer recombination in T::try_from(TwoFloat) for 64/128-bit T, dominated by the range check
    (LOWER..=UPPER).contains(&trunc(x)).  Argument: LOWER = {MIN,0} and UPPER = {MAX as f64,-1} = MAX
    exactly (rule R22 checks the constants), so MIN <= t <= MAX; t.hi and t.lo are integers with
    |t.lo| <= ulp(t.hi)/2, hence each cast is in range and hi + lo (resp. MAX - (-lo) + 1 when
    t.hi == MAX as f64, where t.lo <= -1) stays within [MIN, MAX]."""
    tv = None; lower = upper = False
    for c, v in st.known.items():
        if v != 1 or tag(c) != "call":
            continue
        if c[1].startswith("core::ops::RangeInclusive::<Idx>::contains<TwoFloat,TwoFloat>"):
            rng, x = c[2], c[3]
            if tag(x) == "call" and x[1] == "TwoFloat::trunc" and tag(rng) == "call" and "RangeInclusive::<Idx>::new<TwoFloat>" in rng[1]:
                tv = x; lower = upper = True
        # the same test written out: LOWER <= t && t <= UPPER
        if c[1] == "core::cmp::PartialOrd::le<TwoFloat,TwoFloat>" and len(c) == 4:
            a, b = c[2], c[3]
            if tag(b) == "call" and b[1] == "TwoFloat::trunc" and tag(a) == "agg":
                tv = b; lower = True
            if tag(a) == "call" and a[1] == "TwoFloat::trunc" and tag(b) == "agg":
                tv = a; upper = True
        if c[1] == "core::cmp::PartialOrd::ge<TwoFloat,TwoFloat>" and len(c) == 4:
            a, b = c[2], c[3]
            if tag(a) == "call" and a[1] == "TwoFloat::trunc" and tag(b) == "agg":
                tv = a; lower = True
            if tag(b) == "call" and b[1] == "TwoFloat::trunc" and tag(a) == "agg":
                tv = b; upper = True
    if tv is None or not (lower and upper) or cond is None:
        return False
    inside = set(all_nodes(tv)) - {tv}
    for n in all_nodes(cond):
        if n in inside:
            continue
        if tag(n) in ("param", "havoc"):
            return False
        if tag(n) == "call" and n is not tv:
            return False
    return bool([n for n in all_nodes(cond) if tag(n) == "field" and n[1] is tv])

def match_wide_from(cond, st, hooks):
    """remainder arms of TwoFloat::from(wide integer): under a == MAX as f64 the value is within
    ulp/2 of 2^N so MAX - value >= 0 and +1 cannot overflow; under value >= a as T (resp. <) the
    difference value - a as T (resp. a as T - value) is non-negative and at most ulp(a)/2."""
    if cond is None or tag(cond) != "i" or not cond[1].endswith("_ovf"):
        return False
    ty = cond[2]
    if ty not in ("i64", "u64", "i128", "u128"):
        return False
    op, a, b = cond[1][:-4], cond[3], cond[4]
    cands = [a, b]
    if tag(a) == "i" and len(a) == 5:
        cands += [a[3], a[4]]
    for p in cands:
        if tag(p) in ("const", "i") or (tag(p) == "cast" and not (p[1] == "IntToInt" and p[3] == ty)):
            continue        # (an integer widened to T - `n as i64` handed on by a pointer-sized route - is a value of T like any other)
        av = mk("cast", "IntToFloat", ty, "f64", p)
        back = mk("cast", "FloatToInt", "f64", ty, av)
        eqmax = None; ge = None
        for c, v in st.known.items():
            if tag(c) == "cmp" and c[1] == "eq" and c[2] == "f64" and (c[3] is av or c[4] is av):
                eqmax = v
            if tag(c) == "cmp" and c[2] == ty and type(v) is not tuple:
                # value >= a as T, in any of its spellings
                if c[3] is p and c[4] is back and c[1] in ("ge", "lt"):
                    ge = v if c[1] == "ge" else 1 - v
                elif c[3] is back and c[4] is p and c[1] in ("le", "gt"):
                    ge = v if c[1] == "le" else 1 - v
        if eqmax == 1 and op == "sub" and tag(a) == "const" and b is p:
            return True
        if eqmax == 1 and op == "add" and tag(b) == "const" and vg.to_signed(ty, b[2]) == 1 and tag(a) == "i" and a[1] == "sub" and a[4] is p:
            return True
        if eqmax == 0 and ge == 1 and op == "sub" and a is p and b is back:
            return True
        if eqmax == 0 and ge == 0 and op == "sub" and a is back and b is p:
            return True
    return False

LINKED = [
    {"kind": "panic", "name": "exp-reduction-bound", "match": match_exp_reduction,
     "why": "|z.hi| <= 1/4 + 2^-43 for z = x - round(2 x.hi)/2 with |x.hi| < 2^10 (checked: constant >= 1/4 + 2^-40, reduction shape, path bounds)"},
    {"kind": "Overflow", "name": "wide-tryfrom", "match": match_wide_tryfrom,
     "why": "recombination dominated by the exact range check MIN <= trunc(x) <= MAX (constants checked by R22)"},
    {"kind": "Overflow", "name": "wide-from", "match": match_wide_from,
     "why": "remainder arm selected by a == MAX as f64 / value >= a as T bounds the difference by ulp(a)/2"},
]
