"""Hash-consed term nodes: O(1) hashing/equality so that DAG-shaped value graphs (repeated
squaring, Newton iterations) do not blow up."""

class Node(object):
    __slots__ = ("a", "h")
    def __init__(self, a):
        self.a = a
        self.h = hash(a)
    def __getitem__(self, i):
        return self.a[i]
    def __len__(self):
        return len(self.a)
    def __iter__(self):
        return iter(self.a)
    def __hash__(self):
        return self.h
    def __repr__(self):
        return "N" + repr(self.a) if len(self.a) < 4 else "N(%s…)" % (self.a[0],)
    # equality is identity (interning guarantees structural equality <=> identity)

_table = {}

def mk(*a):
    n = _table.get(a)
    if n is None:
        n = Node(a)
        _table[a] = n
    return n

def tag(x):
    return x.a[0] if type(x) is Node else None

def is_node(x):
    return type(x) is Node

def rebuild(t, f, memo):
    """bottom-up map over a DAG: f(tag-tuple-with-mapped-children) -> Node"""
    if type(t) is not Node:
        if type(t) is tuple:
            return tuple(rebuild(x, f, memo) for x in t)
        return t
    r = memo.get(t)
    if r is not None:
        return r
    # iterative post-order to avoid recursion limits on deep graphs
    stack = [(t, False)]
    while stack:
        n, done = stack.pop()
        if n in memo:
            continue
        if not done:
            stack.append((n, True))
            for c in n.a:
                if type(c) is Node and c not in memo:
                    stack.append((c, False))
                elif type(c) is tuple:
                    for d in _nodes_in(c):
                        if d not in memo:
                            stack.append((d, False))
        else:
            kids = tuple(_map_child(c, memo) for c in n.a)
            memo[n] = f(kids)
    return memo[t]

def _nodes_in(tp):
    for c in tp:
        if type(c) is Node:
            yield c
        elif type(c) is tuple:
            yield from _nodes_in(c)

def _map_child(c, memo):
    if type(c) is Node:
        return memo[c]
    if type(c) is tuple:
        return tuple(_map_child(x, memo) for x in c)
    return c

def all_nodes(t):
    """every distinct node reachable from t (t may be a Node or nested tuples of Nodes)"""
    seen = set()
    stack = [t]
    out = []
    while stack:
        x = stack.pop()
        if type(x) is Node:
            if x in seen:
                continue
            seen.add(x)
            out.append(x)
            stack.extend(x.a)
        elif type(x) is tuple:
            stack.extend(x)
    return out

def size(t):
    return len(all_nodes(t))
