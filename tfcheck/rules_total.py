"""Totality rules (R24, R30, R36, R40, R50): no reachable, undischarged panic site."""
import re
from . import vg, facts as F, helpers as H, panics, norm
from .terms import tag

def call_graph(f):
    g = {}
    for b in f.live:
        out = set()
        for mir in [b.mir] + list(b.promoted):
            for blk in mir["blocks"]:
                t = blk["t"]
                if t["k"] == "call" and "f" in t:
                    r = t["f"].get("res") or {}
                    if r.get("local") and r.get("key") in f.by_key:
                        out.add(r["key"])
                    elif r.get("fkey"):
                        # local closures / functions called back from foreign generic code
                        stack = [r["fkey"]]; seen = set()
                        while stack:
                            k = stack.pop()
                            if k in seen:
                                continue
                            seen.add(k)
                            s = f.foreign.get(k) or {}
                            for c in s.get("calls", []):
                                if c.get("local") and c.get("local_key") in f.by_key:
                                    out.add(c["local_key"])
                                elif "key" in c:
                                    stack.append(c["key"])
                for st in blk["s"]:
                    rv = st.get("rv", {})
                    if "agg" in rv and isinstance(rv["agg"], dict) and "closure" in rv["agg"] and rv["agg"].get("key") in f.by_key:
                        out.add(rv["agg"]["key"])
                    # function items passed as values (e.g. <Self>::add to fold)
                    for o in rv.get("ops", []) + [rv.get("use") or {}]:
                        c = (o or {}).get("const") or {}
                        r = (c.get("fn") or {}).get("res") or {}
                        if r.get("local") and r.get("key") in f.by_key:
                            out.add(r["key"])
        g[b.key] = out
    return g

def reachable(f, entries):
    g = call_graph(f)
    seen = set(); stack = [b.key for b in entries]
    while stack:
        k = stack.pop()
        if k in seen:
            continue
        seen.add(k)
        stack.extend(g.get(k, ()))
    return [f.by_key[k] for k in sorted(seen)]

def totality(rep, f, rule, entry_idents, label, min_sites=0, kinds=None, min_entries=0):
    entries = []
    for i in entry_idents:
        b = f.get(i)
        if b is None:
            rep.fail(rule, i, "anchor-lost:" + i, "%s not found (reason=anchor-lost)" % i)
        else:
            entries.append(b)
    bodies = reachable(f, entries)
    n_sites = 0; n_fn = 0; by_status = {}
    seen_keys = set()
    bodies = sorted(bodies, key=lambda b: b.kind == "Closure")      # closures last
    read_in_context = set()
    for b in bodies:
        private = (not b.reachable) and b.trait is None and b.kind != "Closure"
        if private:
            continue      # analysed in the context of its callers (inlined)
        if b.kind == "Closure" and b.ident() in read_in_context:
            continue      # read where it is applied (directly, or through core's combinators) during the analyses above
        n_fn += 1
        try:
            sites, tree = panics.analyse(f, b)
            read_in_context |= panics.analyse.last_covered
        except vg.Unsupported as u:
            if kinds is not None and b.kind == "Closure" and not has_explicit_panic(b):
                continue      # a closure handed to foreign code that contains no assertion / expect / unwrap of its own: nothing to discharge
            rep.fail(rule, b.ident(), "unanalysable:" + b.ident(), "cannot analyse %s for panic sites: %s" % (b.ident(), u), where=H.where(b))
            continue
        except RecursionError:
            rep.fail(rule, b.ident(), "unanalysable:" + b.ident(), "analysis of %s did not terminate" % b.ident(), where=H.where(b))
            continue
        for s in sites:
            if kinds is not None and ((s.kind not in kinds) if kinds[0] != "!" else (s.kind in kinds[1:])):
                continue
            dg = norm.digest(s.cond)[:10] if s.cond is not None else "-"
            key = "%s:%s:%s:%s" % (s.func, s.kind, s.detail, dg)
            by_status[s.status] = by_status.get(s.status, 0) + 1
            n_sites += 1
            if s.status == "open":
                if key in seen_keys:
                    continue
                seen_keys.add(key)
                rep.fail(rule, "%s reached from %s" % (s.func, b.ident()), "panic-site:%s:%s:%s" % (s.func, s.kind, s.detail),
                         "%s can panic (%s %s) when called through %s: %s; path: %s" % (s.func, s.kind, s.detail, b.ident(), s.why, "; ".join(s.path or [])[:600]),
                         where=s.where, data={"cond": s.cond, "path": s.path})
            else:
                if key in seen_keys:
                    continue
                seen_keys.add(key)
                rep.ok(rule, "%s %s %s [%s]" % (s.func, s.kind, s.detail, dg), detail="%s: %s" % (s.status, s.why), nontrivial=(s.status != "D-const"))
    rep.analysed[label] = {"entry_points": len(entries), "functions_analysed": n_fn, "reachable_bodies": len(bodies), "sites": n_sites, "by_status": by_status}
    # non-vacuity is a matter of the entry points analysed (each named one is an anchor of its own); how many panic sites they
    # contain is free to change (assertions and checked operations come and go with hardening / clean-up changes)
    rep.floor(rule, n_sites, min_sites, "panic sites reachable from " + label)
    if min_entries:
        rep.floor(rule, len(entries), min_entries, "entry points of " + label)

POW_IMPLS = ["<&TwoFloat as num_traits::Pow<&%s>>::pow" % t for t in ("i8", "i16", "i32", "u8", "u16")]
POWF_IMPLS = ["<&TwoFloat as num_traits::Pow<&%s>>::pow" % t for t in ("f64", "TwoFloat")]

def entries_C13():
    return ["TwoFloat::powi", "TwoFloat::sqrt", "TwoFloat::cbrt", "TwoFloat::hypot", "TwoFloat::recip"] + POW_IMPLS + [i.replace("<&TwoFloat", "<TwoFloat").replace("<&", "<") for i in POW_IMPLS]

def entries_C14():
    return ["TwoFloat::exp", "TwoFloat::exp2", "TwoFloat::exp_m1", "TwoFloat::powf"] + POWF_IMPLS

def entries_C15():
    return ["TwoFloat::ln", "TwoFloat::log", "TwoFloat::log2", "TwoFloat::log10", "TwoFloat::ln_1p"]

def entries_C16():
    return ["TwoFloat::" + n for n in ("sin", "cos", "sin_cos", "tan")]

def entries_C17():
    return ["TwoFloat::" + n for n in ("asin", "acos", "atan", "atan2")]

def entries_C18():
    return ["TwoFloat::" + n for n in ("cosh", "sinh", "tanh", "acosh", "asinh", "atanh")]

def entries_C09(f):
    out = []
    for b in f.live:
        if b.trait in ("core::convert::From", "core::convert::TryFrom") and b.kind != "Closure":
            out.append(b.ident())
        if b.trait in ("num_traits::FromPrimitive", "num_traits::ToPrimitive", "num_traits::NumCast") and b.kind != "Closure":
            out.append(b.ident())
    return sorted(set(out))


EXPL = re.compile(r"^core::(option::Option::<.*>|result::Result::<.*>)::(expect|unwrap|unwrap_err|expect_err)$|^core::panicking::")
def has_explicit_panic(b):
    """the body contains an explicit panic site: a (debug) assertion, a diverging call, an expect / unwrap"""
    for mir in [b.mir] + list(b.promoted):
        for blk in mir["blocks"]:
            t = blk["t"]
            if t.get("dbg"):
                return True
            if t["k"] == "assert" and not blk.get("cleanup"):
                return True      # an overflow / bounds / division check: the form rules read on as if it passes
            if t["k"] == "call" and not blk.get("cleanup"):
                if t.get("t") is None:
                    return True
                d = F.norm_path(((t.get("f") or {}).get("res") or t.get("f") or {}).get("def", ""))
                if EXPL.match(d):
                    return True
    return False

OWN_TOTALITY = {"C09", "C13", "C14", "C15", "C16", "C17", "C18"}

def assumed_assertions(ctx, rep, covered, prop):
    """RD: the form rules read a function as if its assertions hold, its expect / unwrap calls succeed and its overflow / bounds /
    division checks pass; when the bodies a property evaluated contain such sites, every one of them has to be discharged by
    the panic-site analysis, entered from the public functions among those bodies (the properties with a totality rule of their
    own do this there).  Calls into foreign code that may panic for reasons of its own (the fmt machinery) are not in scope."""
    if prop in OWN_TOTALITY:
        return
    f = ctx.facts("A")
    has_dbg = has_explicit_panic
    if prop in ("C01", "C11"):
        return      # C01 classifies the pairs built on the paths that return; C11 compares configurations
    cov = [b for b in f.live if b.ident() in covered]
    if not any(has_dbg(b) for b in cov):
        return
    entries = sorted({b.ident() for b in cov if b.kind != "Closure" and (b.reachable or b.trait is not None) and f.get(b.ident()) is not None})
    totality(rep, f, "RD", entries[:60], "functions with assertions / expect / unwrap", min_sites=0, kinds=("!", "call"))
