"""A small DSL for writing reference forms of the mathematical functions at operator level,
transliterating the cited algorithms with Python operators (x + s * (-x).exp() - 1.0)."""
from .terms import mk, tag
from . import vg, dectree as D

TFN = "TwoFloat"

class V(object):
    __slots__ = ("t", "ty")
    def __init__(self, t, ty):
        self.t = t; self.ty = ty
    # --- arithmetic
    def _bin(self, op, other, swap=False):
        o = lift(other)
        a, b = (o, self) if swap else (self, o)
        if a.ty == "f64" and b.ty == "f64":
            return V(mk("f", op, a.t, b.t), "f64")
        return V(mk("call", "op:%s:%s:%s" % (op, tyname(a.ty), tyname(b.ty)), a.t, b.t), "TF")
    def __add__(self, o): return self._bin("add", o)
    def __radd__(self, o): return self._bin("add", o, True)
    def __sub__(self, o): return self._bin("sub", o)
    def __rsub__(self, o): return self._bin("sub", o, True)
    def __mul__(self, o): return self._bin("mul", o)
    def __rmul__(self, o): return self._bin("mul", o, True)
    def __truediv__(self, o): return self._bin("div", o)
    def __rtruediv__(self, o): return self._bin("div", o, True)
    def __mod__(self, o): return self._bin("rem", o)
    def __neg__(self):
        if self.ty == "f64":
            if tag(self.t) == "const":
                return V(mk("const", "f64", self.t[2] ^ (1 << 63)), "f64")
            return V(mk("f", "neg", self.t), "f64")
        return V(mk("call", "op:neg:TwoFloat:TwoFloat", self.t), "TF")
    # --- words
    @property
    def hi(self): return V(field(self.t, 0), "f64")
    @property
    def lo(self): return V(field(self.t, 1), "f64")
    # --- inherent methods kept opaque at operator level
    def m(self, name, *args, ty="TF"):
        return V(mk("call", "TwoFloat::" + name, self.t, *[lift(a).t for a in args]), ty)
    def abs(self): return self.m("abs")
    def exp(self): return self.m("exp")
    def exp2(self): return self.m("exp2")
    def exp_m1(self): return self.m("exp_m1")
    def ln(self): return self.m("ln")
    def sqrt(self): return self.m("sqrt")
    def recip(self): return self.m("recip")
    def round(self): return self.m("round")
    def trunc(self): return self.m("trunc")
    def atan(self): return self.m("atan")
    def asin(self): return self.m("asin")
    def is_valid(self): return self.m("is_valid", ty="bool").t
    def is_sign_positive(self): return self.m("is_sign_positive", ty="bool").t

def field(t, i):
    if tag(t) == "agg" and i < len(t[2]):
        return t[2][i]
    return mk("field", t, i)

def tyname(ty):
    return TFN if ty == "TF" else ty

def lift(x):
    if isinstance(x, V):
        return x
    if isinstance(x, float) or isinstance(x, int):
        return V(vg.f64c(float(x)), "f64")
    raise TypeError(x)

def TFv(hi, lo=0.0):
    return V(mk("agg", ("adt", "TwoFloat", 0, "TwoFloat"), (lift(hi).t, lift(lo).t)), "TF")

def param(i, ty="TF"):
    return V(mk("param", i), ty)

def libm(name, *args):
    return V(mk("call", "libm::" + name, *[lift(a).t for a in args]), "f64")

def f64m(name, x, ty="f64"):
    return V(mk("call", "core::f64::<impl f64>::" + name, lift(x).t), ty)

def cast(kind, frm, to, x):
    return V(mk("cast", kind, frm, to, lift(x).t), to)

def const_tf(words):
    return TFv(V(mk("const", "f64", words[0]), "f64"), V(mk("const", "f64", words[1]), "f64"))

# --- conditions (terms)
def fcmp(op, a, b):
    return mk("cmp", op, "f64", lift(a).t, lift(b).t)

def tcmp(op, a, b):
    """PartialOrd default methods on TwoFloat / f64 operands"""
    a, b = lift(a), lift(b)
    return mk("call", "core::cmp::PartialOrd::%s<%s,%s>" % (op, tyname(a.ty), tyname(b.ty)), a.t, b.t)

def teq(a, b):
    a, b = lift(a), lift(b)
    return mk("call", "<%s as core::cmp::PartialEq<%s>>::eq" % (tyname(a.ty), tyname(b.ty)), a.t, b.t)

def RETV(v):
    return ("leaf", lift(v).t, ())

NAN_LEAF = ("NANLEAF",)

def is_nan_tf(v):
    return tag(v) == "agg" and len(v[2]) == 2 and tag(v[2][0]) == "const" and v[2][0][1] == "f64" and D.f64v(v[2][0]) != D.f64v(v[2][0])

def is_invalid_tf(v):
    """a TwoFloat constant whose high word is NaN or infinite: not a valid value (the properties' "invalid" result)"""
    if tag(v) == "agg" and len(v[2]) == 2 and tag(v[2][0]) == "const" and v[2][0][1] == "f64":
        h = D.f64v(v[2][0])
        return h != h or h in (float("inf"), float("-inf"))
    return False

STRICT_NAN_LEAF = ("STRICTNANLEAF",)

def leaf_eq_nan(l1, l2):
    """leaf equality where NAN_LEAF ("an invalid result") matches any TwoFloat constant with a non-finite high word, and
    STRICT_NAN_LEAF (where a property says NaN) any with a NaN high word"""
    for a, b in ((l1, l2), (l2, l1)):
        if b == NAN_LEAF:
            return a == NAN_LEAF or (a[0] == "leaf" and is_invalid_tf(a[1]))
        if b == STRICT_NAN_LEAF:
            return a == STRICT_NAN_LEAF or (a[0] == "leaf" and is_nan_tf(a[1]))
    return l1 == l2
