"""Rules for C02-C05, C10, C11, C19: conformance of the arithmetic core to the cited
algorithms, agreement of every spelling, algebraic identities, configuration independence."""
from . import vg, norm, refs, helpers as H, facts as F
from .helpers import P, HI, LO, TF
from .terms import mk, tag, all_nodes

OPS = [("Add", "add"), ("Sub", "sub"), ("Mul", "mul"), ("Div", "div"), ("Rem", "rem")]
PAIRS = [(TF, TF), (TF, "f64"), ("f64", TF)]

def nf_pair(facts, body, rep=None, assign=False, mode="E", eft=None, keep=()):
    """normalised (hi, lo) of a straight-line body returning TwoFloat (or assigning *self)"""
    t = H.tree_of(facts, body, "prim", keep=keep)
    if t[0] != "leaf":
        return None, t
    N = norm.Normalizer(mode, eft)
    v = H.value_of_leaf(t, assign)
    if v is None:
        return None, t
    v = N.norm(v)
    return H.pair_of(v), t

def expect_pair(rep, facts, rule, ident, ref_pair, assign=False, label=None, body=None):
    b = body or facts.get(ident)
    inst = label or ident
    if b is None:
        rep.fail(rule, inst, "anchor-lost:" + ident, "public item %s not found (reason=anchor-lost)" % ident)
        return False
    try:
        got, t = nf_pair(facts, b, assign=assign)
    except vg.Unsupported as u:
        rep.fail(rule, inst, "not-straight-line:" + ident, "cannot evaluate %s symbolically: %s" % (ident, u), where=H.where(b))
        return False
    if got is None:
        rep.fail(rule, inst, "not-straight-line:" + ident, "%s is not a straight-line computation any more (branches or no TwoFloat result); the cited algorithm is branch-free" % ident,
                 {"tree": t}, where=H.where(b))
        return False
    N = norm.Normalizer("E")
    # a list: the cited algorithm first, then other algorithms of the same paper whose proven bound is within the property's
    alts = []
    if isinstance(ref_pair, list):
        ref_pair, alts = ref_pair[0], ref_pair[1:]
    exp = (N.norm(ref_pair[0]), N.norm(ref_pair[1]))
    ok = got[0] is exp[0] and got[1] is exp[1]
    if ok:
        rep.ok(rule, inst, detail="normal form equals reference", algebra="E",
               sample={"hi": got[0], "lo": got[1]})
        return True
    for k_, (what_, alt_) in enumerate(alts):
        if got[0] is N.norm(alt_[0]) and got[1] is N.norm(alt_[1]):
            rep.ok(rule, inst, detail="normal form equals the accepted alternative: " + what_, algebra="E", sample={"hi": got[0], "lo": got[1]})
            return True
    word = "hi" if got[0] is not exp[0] else "lo"
    d = norm.first_difference(got[0] if word == "hi" else got[1], exp[0] if word == "hi" else exp[1], word + "-word")
    rep.fail(rule, inst, "nonconforming:" + ident,
             "%s does not implement the reference algorithm: %s" % (ident, H.describe_diff(d)),
             {"got_hi": got[0], "got_lo": got[1], "expected_hi": exp[0], "expected_lo": exp[1]}, where=H.where(b))
    return False

# ------------------------------------------------------------------ role identification

def unpack_words(t):
    """p0[k] / p0.k -> p_k for a function that takes its f64 words as one array or tuple"""
    from .terms import rebuild
    def f_(a):
        if a[0] in ("index", "field"):
            base = a[1]
            while tag(base) == "deref":
                base = base[1]
            k = a[2]
            if base is P(0) and (isinstance(k, int) or (tag(k) == "const" and isinstance(k[2], int))):
                return P(k if isinstance(k, int) else k[2])
        return mk(*a)
    return rebuild(t, f_, {})

def packed_args(v, n):
    """(a, b, c) when v is a call with n word arguments, or with one array / tuple of n words"""
    if tag(v) == "call" and len(v) == 2 + n:
        return tuple(v[2:])
    if tag(v) == "call" and len(v) == 3 and tag(v[2]) == "agg" and v[2][1][0] in ("array", "tuple") and len(v[2][2]) == n:
        return tuple(v[2][2])
    return None

def find_by_shape(facts, n_f64_args, ref_pair_fn):
    """local non-test functions taking n f64 and returning TwoFloat whose normal form equals ref"""
    N = norm.Normalizer("E")
    ref = ref_pair_fn(*[P(i) for i in range(n_f64_args)])
    exp = (N.norm(ref[0]), N.norm(ref[1]))
    out = []
    packed_tys = ("[f64; %d]" % n_f64_args, "(" + ", ".join(["f64"] * n_f64_args) + ")")
    for b in facts.live:
        packed = len(b.inputs) == 1 and b.inputs[0].lstrip("&") in packed_tys and n_f64_args > 1
        if b.kind == "Closure" or not (b.inputs == ["f64"] * n_f64_args or packed) or b.output != TF:
            continue
        before = set(vg.COVERED)
        try:
            if packed:
                # the same n words handed over as one array / tuple: its components are the parameters
                t = H.tree_of(facts, b, "prim")
                v = H.value_of_leaf(t, False) if t[0] == "leaf" else None
                got = H.pair_of(N.norm(unpack_words(v))) if v is not None else None
            else:
                got, t = nf_pair(facts, b)
        except vg.Unsupported:
            got = None
        if got and got[0] is exp[0] and got[1] is exp[1]:
            out.append(b)
        else:
            # a candidate that does not play the role is not part of what the calling rule analysed
            vg.COVERED.intersection_update(before)
    return out

def eft_table(facts):
    """call-name -> kind for the error-free transformations, identified by conformance"""
    tab = {}
    for kind, fn in (("ts", refs.TS), ("tsn", refs.TSn), ("tp", refs.TP)):
        for b in find_by_shape(facts, 2, fn):
            tab[b.ident()] = kind
    return tab

# ------------------------------------------------------------------ C02

def check_C02(ctx, rep):
    f = ctx.facts("A")
    p0, p1 = P(0), P(1)
    expect_pair(rep, f, "R4", "TwoFloat::new_add", refs.TS(p0, p1))
    expect_pair(rep, f, "R4", "TwoFloat::new_sub", refs.TSn(p0, p1))
    expect_pair(rep, f, "R4", "TwoFloat::new_mul", refs.TP(p0, p1))
    expect_pair(rep, f, "R4", "TwoFloat::new_div", refs.DIV1(p0, p1))
    zero = vg.f64c(0.0)
    expect_pair(rep, f, "R4", "TwoFloat::from_f64", (p0, zero))
    expect_pair(rep, f, "R4", "<TwoFloat as core::convert::From<f64>>::from", (p0, zero))
    expect_pair(rep, f, "R4", "<TwoFloat as core::convert::From<f32>>::from", (mk("cast", "FloatToFloat", "f32", "f64", p0), zero))
    fts = find_by_shape(f, 2, refs.FTS)
    rep.check(len(fts) >= 1, "R4", "Fast2Sum primitive (role-identified)", "anchor-lost:fast2sum",
              "no crate function conforms to Fast2Sum (Alg. 1) any more", sample=[b.ident() for b in fts])
    r3 = find_by_shape(f, 3, refs.R3)
    rep.check(len(r3) >= 1, "R4", "three-term renormalisation (role-identified)", "anchor-lost:renorm3",
              "no crate function conforms to the three-term renormalisation any more", sample=[b.ident() for b in r3])
    check_fma(ctx, rep, f, "A")
    rep.floor("R4", len([o for o in rep.obl if o["rule"] == "R4"]), 9, "EFT primitives")
    rep.analysed["functions"] = ["TwoFloat::new_add", "TwoFloat::new_sub", "TwoFloat::new_mul", "TwoFloat::new_div", "TwoFloat::from_f64",
                                 "From<f64>", "From<f32>"] + [b.ident() for b in fts + r3]

def check_fma(ctx, rep, f, cfg):
    """R5: every fused multiply-add reached from the arithmetic core resolves to the allow-list,
    arguments in order; nothing else computes x*y+z under the crate's fma name."""
    allow = {"A": "core::f64::<impl f64>::mul_add", "B": "libm::fma"}
    seen = set()
    count = 0
    for ident in ("TwoFloat::new_mul", H.op_ident("Mul", "&" + TF, "&f64", "mul"), H.op_ident("Mul", "&" + TF, "&" + TF, "mul")):
        b = f.get(ident)
        if b is None:
            continue
        try:
            t = H.tree_of(f, b, "prim")
        except vg.Unsupported:
            continue
        for path, leaf in vg.leaves(t):
            if leaf[0] == "leaf":
                seen |= norm.fma_providers(leaf[1])
                count += 1
    ok = seen and all(s == allow[cfg] or s.startswith("libm::") and cfg == "B" and s.endswith("fma") for s in seen)
    rep.check(bool(ok), "R5", "fma provider cfg " + cfg, "fma-provider:" + cfg,
              "fused multiply-add in configuration %s resolves to %s, expected %s" % (cfg, sorted(seen), allow[cfg]),
              detail={"providers": sorted(seen), "bodies": count})

# ------------------------------------------------------------------ C03

def check_C03(ctx, rep):
    f = ctx.facts("A")
    p0, p1 = P(0), P(1)
    R = "R6"
    rt, rf = "&" + TF, "&f64"
    expect_pair(rep, f, R, H.op_ident("Add", rt, rf, "add"), refs.DW_PLUS_FP(HI(p0), LO(p0), p1))
    expect_pair(rep, f, R, H.op_ident("Add", rf, rt, "add"), refs.DW_PLUS_FP(HI(p1), LO(p1), p0))
    expect_pair(rep, f, R, H.op_ident("Sub", rt, rf, "sub"), refs.DW_MINUS_FP(HI(p0), LO(p0), p1))
    expect_pair(rep, f, R, H.op_ident("Sub", rf, rt, "sub"), refs.FP_MINUS_DW(p0, HI(p1), LO(p1)))
    expect_pair(rep, f, R, H.op_ident("Add", rt, rt, "add"), refs.DW_PLUS_DW(HI(p0), LO(p0), HI(p1), LO(p1)))
    expect_pair(rep, f, R, H.op_ident("Sub", rt, rt, "sub"), refs.DW_PLUS_DW(HI(p0), LO(p0), HI(p1), LO(p1), True))
    expect_pair(rep, f, R, "<TwoFloat as core::ops::AddAssign<&f64>>::add_assign", refs.DW_PLUS_FP(HI(p0), LO(p0), p1), assign=True)
    expect_pair(rep, f, R, "<TwoFloat as core::ops::AddAssign<&TwoFloat>>::add_assign", refs.DW_PLUS_DW(HI(p0), LO(p0), HI(p1), LO(p1)), assign=True)
    expect_pair(rep, f, R, "<TwoFloat as core::ops::SubAssign<&f64>>::sub_assign", refs.DW_MINUS_FP(HI(p0), LO(p0), p1), assign=True)
    expect_pair(rep, f, R, "<TwoFloat as core::ops::SubAssign<&TwoFloat>>::sub_assign", refs.DW_PLUS_DW(HI(p0), LO(p0), HI(p1), LO(p1), True), assign=True)
    rep.floor(R, len([o for o in rep.obl if o["rule"] == R]), 10, "add/sub bodies")
    check_wrappers(ctx, rep, f, ops=[("Add", "add"), ("Sub", "sub")], rule="R13")
    check_sum(ctx, rep, f)
    from . import rules_exact
    rules_exact.check_exact_C03(rep, f)

def check_sum(ctx, rep, f):
    """R7: Sum::sum is fold(zero, Add::add)"""
    check_fold_impl(rep, f, "Sum", "sum", "Add::add", 0.0, "R7", required=True)

def check_product(ctx, rep, f, rule="R8p"):
    """an `impl Product for TwoFloat`, when there is one, is fold(one, Mul::mul) (not in the crate today: the
    rule is vacuous until such an impl appears, and the self-test keeps a positive and a negative example)"""
    check_fold_impl(rep, f, "Product", "product", "Mul::mul", 1.0, rule, required=False)

def check_fold_impl(rep, f, trait, meth, opname, unit, rule, required):
    ident = "<TwoFloat as core::iter::%s<T>>::%s" % (trait, meth)
    b = f.get(ident)
    sym = "+" if meth == "sum" else "*"
    inst = "%s::%s = fold(%s, %s)" % (trait, meth, "+0" if unit == 0.0 else "1", opname)
    key = "%s-not-fold" % meth
    if b is None:
        if required:
            rep.fail(rule, "%s::%s" % (trait, meth), "anchor-lost:" + trait, "impl %s<T> for TwoFloat not found (reason=anchor-lost)" % trait)
        else:
            rep.ok(rule, "no impl %s for TwoFloat" % trait, detail="nothing to check", nontrivial=False)
        return
    opfull = "core::ops::%s<TwoFloat,T>" % opname
    extra = ("<TwoFloat as num_traits::Zero>::zero", "<TwoFloat as num_traits::One>::one", "<TwoFloat as core::default::Default>::default",
             "<TwoFloat as core::convert::From<f64>>::from", "TwoFloat::from_f64")
    uc = vg.f64c(unit); zero = vg.f64c(0.0)
    def is_unit(init):
        return tag(init) == "agg" and len(init[2]) == 2 and init[2][0] is uc and init[2][1] is zero
    try:
        t = H.tree_of(f, b, "op", inline_extra=extra)
    except vg.Unsupported as u:
        # an explicit loop `for item in iter { total = total + item }`: over-approximate the loop
        ok, detail = fold_loop_form(f, b, extra, is_unit, opfull)
        rep.check(ok, rule, inst, key, "Iterator::%s is not a left fold with %s from %s (loop form): %s" % (meth, sym, unit, detail),
                  where=H.where(b), detail=detail)
        return
    ok = False
    detail = None
    if t[0] == "leaf" and tag(t[1]) == "after" and tag(t[1][1]) == "call" and "Iterator::for_each" in t[1][1][1] and len(t[1][1]) == 4:
        # `let mut total = unit; iter.for_each(|x| total = total op x); total`: a left fold written with a captured accumulator
        fe = t[1][1]
        it, clo = fe[2], fe[3]
        detail = {"iter": it, "closure": clo}
        if it is P(0) and tag(clo) == "agg" and clo[1][0] == "closure" and len(clo[2]) == 1 and is_unit(clo[2][0]):
            cb = f.by_key.get(clo[1][1])
            if cb is not None:
                ACC = mk("param", 99)
                def setup(ex, st):
                    loc = st.alloc(); st.store[loc] = ACC
                    ex.param_locs[99] = loc
                    return [mk("agg", ("closure", cb.key), (mk("ref", loc, ()),)), None]
                try:
                    ex = vg.Exec(f, vg.Policy(f, "op", inline_extra=extra, keep=H.primitive_idents(f), inline_private=True))
                    ct = ex.run_body(cb, setup=setup)
                    eff = dict(ct[2]) if ct[0] == "leaf" else {}
                    nv = eff.get(99)
                    ok = tag(nv) == "call" and nv[1].startswith(opfull) and nv[2] is ACC and nv[3] is P(1) and set(eff) == {99}
                except vg.Unsupported:
                    ok = False
        rep.check(ok, rule, inst, key, "Iterator::%s is not a left fold with %s from %s (for_each form): %s" % (meth, sym, unit, vg.show(t)[:300]),
                  where=H.where(b), detail=detail)
        return
    if t[0] == "leaf":
        v = t[1]
        if tag(v) == "call" and "fold" in v[1] and len(v) == 5:
            it, init, fn = v[2], v[3], v[4]
            detail = {"iter": it, "init": init, "f": fn}
            init_ok = is_unit(init) or (unit == 0.0 and tag(init) == "call" and init[1] in ("<TwoFloat as core::default::Default>::default",))
            fn_ok = tag(fn) == "fnitem" and fn[1].startswith(opfull) or (tag(fn) == "fnitem" and ("core::ops::" + opname) in fn[1] and "TwoFloat" in fn[1])
            if not fn_ok and tag(fn) == "agg" and fn[1][0] == "closure" and len(fn[2]) == 0:
                # |acc, item| acc + item
                cb = f.by_key.get(fn[1][1])
                if cb is not None:
                    try:
                        ct = H.tree_of(f, cb, "op")
                        fn_ok = ct[0] == "leaf" and tag(ct[1]) == "call" and ct[1][1].startswith(opfull) and ct[1][2] is P(1) and ct[1][3] is P(2)
                    except vg.Unsupported:
                        fn_ok = False
            it_ok = it is P(0)
            ok = init_ok and fn_ok and it_ok
    rep.check(ok, rule, inst, key, "Iterator::%s is not a left fold with %s from %s: %s" % (meth, sym, unit, vg.show(t)[:400]),
              where=H.where(b), detail=detail)

def fold_loop_form(f, b, extra, is_unit, opfull):
    """total = unit; loop { match iter.next() { Some(x) => total = total op x, None => break } }; total"""
    ex = vg.Exec(f, vg.Policy(f, "op", inline_extra=extra, keep=H.primitive_idents(f), inline_private=True), loops="havoc")
    try:
        t = ex.run_body(b)
    except vg.Unsupported as u:
        return False, "cannot analyse: %s" % u
    ents = [e for e in ex.loop_entries if e[0] == b.ident()]
    if len(ents) != 1:
        return False, "expected one loop"
    entry = ents[0][2]
    totals = {hv: l for l, (before, hv) in entry.items() if is_unit(before) and hv[2] == TF}
    if len(totals) != 1:
        return False, "no accumulator initialised to the unit"
    (T, tl), = totals.items()
    rets = []; backs = []
    for path, leaf in vg.leaves(t):
        if leaf[0] == "leaf":
            rets.append(leaf[1])
        elif leaf[0] == "backedge":
            backs.append(dict(leaf[3]).get(tl))
    ok_ret = rets and all(r is T for r in rets)
    ok_back = backs and all(tag(v) == "call" and v[1].startswith(opfull) and v[2] is T and "next" in vg.show(v[3]) for v in backs)
    return bool(ok_ret and ok_back), {"returns": [vg.show(r)[:80] for r in rets], "iteration": [vg.show(v)[:160] for v in backs]}

# ------------------------------------------------------------------ wrappers (R13) / assign (R14)

def all_forms(f, trait, name, lt, rt):
    """the four reference/value spellings of one operator"""
    out = []
    for l in ("&" + lt, lt):
        for r in ("&" + rt, rt):
            out.append((H.op_ident(trait, l, r, name), l, r))
    return out

def check_wrappers(ctx, rep, f, ops, rule="R13", pairs=PAIRS):
    """every spelling of an operator has the same normal form as the reference/reference one"""
    for trait, name in ops:
        for lt, rt in pairs:
            forms = all_forms(f, trait, name, lt, rt)
            base_ident = forms[0][0]
            base = f.get(base_ident)
            if base is None:
                rep.fail(rule, base_ident, "anchor-lost:" + base_ident, "operator impl %s not found (reason=anchor-lost)" % base_ident)
                continue
            try:
                bt = H.norm_tree(H.tree_of(f, base, "prim"))
            except vg.Unsupported as u:
                rep.fail(rule, base_ident, "unsupported:" + base_ident, "cannot evaluate %s: %s" % (base_ident, u), where=H.where(base))
                continue
            for ident, l, r in forms[1:]:
                b = f.get(ident)
                if b is None:
                    rep.fail(rule, ident, "anchor-lost:" + ident, "operator impl %s not found (reason=anchor-lost)" % ident)
                    continue
                try:
                    t = H.norm_tree(H.tree_of(f, b, "prim"))
                except vg.Unsupported as u:
                    rep.fail(rule, ident, "unsupported:" + ident, "cannot evaluate %s: %s" % (ident, u), where=H.where(b))
                    continue
                ok, d = H.result_trees_equal(bt, t)
                rep.check(ok, rule, ident, "spelling-differs:" + ident,
                          "%s is not bit-identical to %s: %s" % (ident, base_ident, H.describe_diff(d)), where=H.where(b),
                          detail="same normal form as " + base_ident, algebra="E", nontrivial=True)
            # compound assignment
            if lt == TF:
                atrait = trait + "Assign"; aname = name + "_assign"
                for r in ("&" + rt, rt):
                    ident = "<TwoFloat as core::ops::%s<%s>>::%s" % (atrait, r, aname)
                    b = f.get(ident)
                    if b is None:
                        rep.fail("R14", ident, "anchor-lost:" + ident, "compound assignment impl %s not found (reason=anchor-lost)" % ident)
                        continue
                    try:
                        t = H.norm_tree(H.tree_of(f, b, "prim"))
                    except vg.Unsupported as u:
                        rep.fail("R14", ident, "unsupported:" + ident, "cannot evaluate %s: %s" % (ident, u), where=H.where(b))
                        continue
                    ok, d = H.result_trees_equal(bt, t, False, True)
                    rep.check(ok, "R14", ident, "assign-differs:" + ident,
                              "%s does not store the bits %s returns: %s" % (ident, base_ident, H.describe_diff(d)), where=H.where(b),
                              detail="*self after == result of " + base_ident, algebra="E")

# ------------------------------------------------------------------ C04

def check_C04(ctx, rep):
    f = ctx.facts("A")
    p0, p1 = P(0), P(1)
    rt, rf = "&" + TF, "&f64"
    R = "R8"
    expect_pair(rep, f, R, H.op_ident("Mul", rt, rf, "mul"), [refs.DW_TIMES_FP(HI(p0), LO(p0), p1), ("JMP 2017 Alg. 7 (DWTimesFP1, 1.5u^2 + 4u^3)", refs.DW_TIMES_FP1(HI(p0), LO(p0), p1))])
    expect_pair(rep, f, R, H.op_ident("Mul", rf, rt, "mul"), [refs.DW_TIMES_FP(HI(p1), LO(p1), p0), ("JMP 2017 Alg. 7 (DWTimesFP1, 1.5u^2 + 4u^3)", refs.DW_TIMES_FP1(HI(p1), LO(p1), p0))])
    expect_pair(rep, f, R, H.op_ident("Mul", rt, rt, "mul"), refs.DW_TIMES_DW(HI(p0), LO(p0), HI(p1), LO(p1)))
    expect_pair(rep, f, R, "<TwoFloat as core::ops::MulAssign<&f64>>::mul_assign", [refs.DW_TIMES_FP(HI(p0), LO(p0), p1), ("JMP 2017 Alg. 7 (DWTimesFP1, 1.5u^2 + 4u^3)", refs.DW_TIMES_FP1(HI(p0), LO(p0), p1))], assign=True)
    expect_pair(rep, f, R, "<TwoFloat as core::ops::MulAssign<&TwoFloat>>::mul_assign", refs.DW_TIMES_DW(HI(p0), LO(p0), HI(p1), LO(p1)), assign=True)
    rep.floor(R, len([o for o in rep.obl if o["rule"] == R]), 5, "mul bodies")
    check_wrappers(ctx, rep, f, ops=[("Mul", "mul")])
    check_fma(ctx, rep, f, "A")
    check_product(ctx, rep, f)
    from . import rules_exact
    rules_exact.check_exact_C04(rep, f)

# ------------------------------------------------------------------ C05

def long_division_ref(n_is_tf):
    """op-level skeleton of qd's accurate_div"""
    n, d = P(0), P(1)
    nt = TF if n_is_tf else "f64"
    nhi = HI(n) if n_is_tf else n
    def OP(op, lt, rt, a, b): return mk("call", "op:%s:%s:%s" % (op, lt, rt), a, b)
    q1 = mk("f", "div", nhi, HI(d))
    r = OP("sub", nt, TF, n, OP("mul", TF, "f64", d, q1))
    q2 = mk("f", "div", HI(r), HI(d))
    r2 = OP("sub", TF, TF, r, OP("mul", TF, "f64", d, q2))
    q3 = mk("f", "div", HI(r2), HI(d))
    return q1, q2, q3

def check_longdiv_error(rep):
    """R10e: relative error of the three-digit long division in the form R10 established (exact rationals; DESIGN B.5).
    q1 = (n/d)(1+e1), |e1| <= (1+u)^2/(1-u) - 1 (high words within u of the values, one f64 division);
    r_c = (n - d q1 (1+mu))(1+alpha) with Alg. 9 (2u^2) and Alg. 6 (3u^2+13u^3): r_c = r1 + e_r, r1 = n - d q1 = -n e1;
    q2 = (r_c/d)(1+e2); r2 = r_c - d q2 = -r_c e2.  renorm3(q1, q2, q3) is Fast2Sum(q1, q2) exactly: its second step
    Fast2Sum(q3, u.hi) has |q3| <= 2^-60 |u.hi| and returns (u.hi, 0) (the third digit is absorbed), the last step re-normalises a
    normalised pair.  Hence  n/d - q = (r2 - e_r)/d."""
    from fractions import Fraction as Fr
    u = Fr(1, 2 ** 53); u2 = u * u
    e1 = (1 + u) ** 2 / (1 - u) - 1
    mu = 2 * u2
    alpha = 3 * u2 + 13 * u ** 3
    r1 = e1                                   # |r1| / |n|
    e_r = (1 + e1) * mu * (1 + alpha) + r1 * alpha
    r_c = r1 + e_r
    e2 = e1
    r2 = r_c * e2
    total = r2 + e_r                          # relative to |n/d|
    q3 = (r2 + (r_c * (1 + e2)) * mu * (1 + alpha) + r2 * alpha) * (1 + e1)      # |q3| / |n/d|
    absorbed = q3 / (1 - e1 - r_c * (1 + e2)) <= Fr(1, 2 ** 60)
    rep.check(total <= 16 * u2 and absorbed, "R10e", "long division relative error (f64/TwoFloat, TwoFloat/TwoFloat, /=, recip)", "errbound:longdiv",
              "the long division is bounded only by %.2f u^2 (third digit absorbed: %s), the property needs 16 u^2" % (float(total / u2), absorbed),
              detail={"bound": "%.2f * 2^-106" % float(total / u2), "first residual": "%.3f u" % float(r1 / u), "rounding of the first residual": "%.3f u^2" % float(e_r / u2),
                      "second residual (= what the dropped third digit would have corrected)": "%.3f u^2" % float(r2 / u2), "third digit": "<= %.3g of the quotient" % float(q3),
                      "lemmas": "f64 division correctly rounded; Alg. 9 / Alg. 6 / Alg. 4 bounds for the conforming operators (C03, C04); no under/overflow for high words in [2^-450, 2^450]"})

def check_C05(ctx, rep):
    f = ctx.facts("A")
    p0, p1 = P(0), P(1)
    rt, rf = "&" + TF, "&f64"
    expect_pair(rep, f, "R9", H.op_ident("Div", rt, rf, "div"), refs.DW_DIV_FP(HI(p0), LO(p0), p1))
    expect_pair(rep, f, "R9", "<TwoFloat as core::ops::DivAssign<&f64>>::div_assign", refs.DW_DIV_FP(HI(p0), LO(p0), p1), assign=True)
    # R10 skeleton
    r10_ok = True
    r3 = [b.ident() for b in find_by_shape(f, 3, refs.R3)]
    N = norm.Normalizer("E")
    for ident, n_is_tf, assign in ((H.op_ident("Div", rf, rt, "div"), False, False), (H.op_ident("Div", rt, rt, "div"), True, False),
                                   ("<TwoFloat as core::ops::DivAssign<&TwoFloat>>::div_assign", True, True)):
        b = f.get(ident)
        if b is None:
            rep.fail("R10", ident, "anchor-lost:" + ident, "%s not found (reason=anchor-lost)" % ident); continue
        try:
            t = H.tree_of(f, b, "op")
        except vg.Unsupported as u:
            rep.fail("R10", ident, "unsupported:" + ident, "cannot evaluate %s: %s" % (ident, u), where=H.where(b)); continue
        ok = False; msg = "not a straight-line computation"
        if t[0] == "leaf":
            v = H.value_of_leaf(t, assign)
            v = N.norm(v) if v is not None else None
            q = tuple(N.norm(x) for x in long_division_ref(n_is_tf))
            if assign and tag(v) == "call" and v[1] == "op:div:TwoFloat:TwoFloat" and len(v) == 4 and v[2] is P(0) and v[3] is P(1):
                # the compound assignment stores the operator's result; the operator body is checked above
                ok = True
            elif tag(v) == "call" and v[1] in r3 and packed_args(v, 3) is not None:
                got = packed_args(v, 3)
                ok = all(a is b2 for a, b2 in zip(got, q))
                if not ok:
                    for i in range(3):
                        if got[i] is not q[i]:
                            msg = "quotient digit q%d differs: %s" % (i + 1, H.describe_diff(norm.first_difference(got[i], q[i], "q%d" % (i + 1))))
                            break
            else:
                msg = "result is not renorm3(q1, q2, q3): %s" % vg.show(v)[:300]
        rep.check(ok, "R10", ident, "long-division:" + ident, "%s does not follow the three-digit long division skeleton: %s" % (ident, msg),
                  where=H.where(b), detail="q1=n.hi/d.hi; r=n-d*q1; q2=r.hi/d.hi; r-=d*q2; q3=r.hi/d.hi; renorm3", algebra="E")
        r10_ok = r10_ok and ok
    if r10_ok and r3:
        check_longdiv_error(rep)
    # R11 recip
    b = f.get("TwoFloat::recip")
    if b is None:
        rep.fail("R11", "TwoFloat::recip", "anchor-lost:recip", "TwoFloat::recip not found (reason=anchor-lost)")
    else:
        t = H.tree_of(f, b, "op")
        exp = mk("call", "op:div:f64:TwoFloat", vg.f64c(1.0), P(0))
        rep.check(t[0] == "leaf" and t[1] is exp, "R11", "TwoFloat::recip", "recip-form", "recip is not 1.0 / self: %s" % vg.show(t)[:300], where=H.where(b),
                  detail="1.0 / self")
    rep.floor("R9+R10+R11", len([o for o in rep.obl if o["rule"] in ("R9", "R10", "R11")]), 6, "division bodies")
    check_wrappers(ctx, rep, f, ops=[("Div", "div")])
    from . import rules_exact
    rules_exact.check_exact_C05(rep, f)

# ------------------------------------------------------------------ C19

def _same_decisions(t, exp):
    """the same leaves under every outcome of the comparisons (`x < 0.0`, `match x.partial_cmp(&0.0)`, ... are one relation)"""
    from . import dectree as D
    try:
        return D.equivalent(t, exp) is None
    except RuntimeError:
        return False

def check_C19(ctx, rep):
    f = ctx.facts("A")
    N = norm.Normalizer("E")
    def OP(op, lt, rt, a, b): return mk("call", "op:%s:%s:%s" % (op, lt, rt), a, b)
    for lt, rt in PAIRS:
        ident = H.op_ident("Rem", "&" + lt, "&" + rt, "rem")
        b = f.get(ident)
        if b is None:
            rep.fail("R51", ident, "anchor-lost:" + ident, "%s not found (reason=anchor-lost)" % ident); continue
        t = H.tree_of(f, b, "op")
        a, c = P(0), P(1)
        q = mk("call", "TwoFloat::trunc", OP("div", lt, rt, a, c))
        exp = OP("sub", lt, TF, a, OP("mul", TF, rt, q, c))
        ok = t[0] == "leaf" and t[1] is exp
        rep.check(ok, "R51", ident, "rem-form:" + ident, "%s is not a - trunc(a / b) * b: %s" % (ident, vg.show(t)[:300]), where=H.where(b),
                  detail="a - trunc(a/b)*b")
    check_wrappers(ctx, rep, f, ops=[("Rem", "rem")], rule="R51w")
    # R52 div_euclid / rem_euclid
    b = f.get("TwoFloat::div_euclid")
    zero = vg.f64c(0.0); one = vg.f64c(1.0)
    if b is None:
        rep.fail("R52", "div_euclid", "anchor-lost:div_euclid", "TwoFloat::div_euclid not found (reason=anchor-lost)")
    else:
        t = H.tree_of(f, b, "op")
        a, c = P(0), P(1)
        q = mk("call", "TwoFloat::trunc", OP("div", TF, TF, a, c))
        r = OP("sub", TF, TF, a, OP("mul", TF, TF, q, c))
        lt0 = mk("call", "core::cmp::PartialOrd::lt<TwoFloat,f64>", r, zero)
        gt0 = mk("call", "core::cmp::PartialOrd::gt<TwoFloat,f64>", c, zero)
        exp = ("if", lt0, ("if", gt0, ("leaf", OP("sub", TF, "f64", q, one), ()), ("leaf", OP("add", TF, "f64", q, one), ())), ("leaf", q, ()))
        rep.check(t == exp or _same_decisions(t, exp), "R52", "TwoFloat::div_euclid", "div-euclid-table", "div_euclid does not follow the floor/ceil adjustment table: %s" % vg.show(t)[:500],
                  where=H.where(b), detail="q=trunc(a/b); r=a-q*b; r<0: b>0 ? q-1 : q+1; else q")
    b = f.get("TwoFloat::rem_euclid")
    if b is None:
        rep.fail("R52", "rem_euclid", "anchor-lost:rem_euclid", "TwoFloat::rem_euclid not found (reason=anchor-lost)")
    else:
        t = H.tree_of(f, b, "op")
        a, c = P(0), P(1)
        r = OP("rem", TF, TF, a, c)
        lt0 = mk("call", "core::cmp::PartialOrd::lt<TwoFloat,f64>", r, zero)
        exp = ("if", lt0, ("leaf", OP("add", TF, TF, r, mk("call", "TwoFloat::abs", c)), ()), ("leaf", r, ()))
        rep.check(t == exp or _same_decisions(t, exp), "R52", "TwoFloat::rem_euclid", "rem-euclid-table", "rem_euclid is not (r = a %% b; r < 0 ? r + |b| : r): %s" % vg.show(t)[:500],
                  where=H.where(b), detail="r=a%b; r<0 ? r+|b| : r")
    from .rules_c10 import check_delegation_subset
    check_delegation_subset(rep, f, {"rem_euclid", "div_euclid"}, rule="R52d")
    rep.floor("R51", len([o for o in rep.obl if o["rule"] == "R51"]), 3, "rem bodies")
