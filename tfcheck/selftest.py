"""Checker self-test (thorough tier): every rule must fire on its mutants and on the seeded
defects kept under /verif/seeded, applied to scratch copies of the repository under $TMPDIR."""
import concurrent.futures, json, os, shutil, subprocess, sys, tempfile
from . import extract

VERIF = extract.VERIF

def load_mutants(prop):
    sys.path.insert(0, os.path.join(VERIF, "selftest"))
    import mutants
    out = [dict(m, kind="mutant") for m in mutants.M if m["property"] == prop]
    sd = os.path.join(VERIF, "seeded")
    if os.path.isdir(sd):
        for d in sorted(os.listdir(sd)):
            mp = os.path.join(sd, d, "meta.json")
            pp = os.path.join(sd, d, "patch.diff")
            if os.path.exists(mp) and os.path.exists(pp):
                try:
                    meta = json.load(open(mp))
                except Exception:
                    continue
                if meta.get("property") == prop:
                    out.append({"id": "seed:" + d, "property": prop, "rules": meta.get("caught_by_rules", []), "patch": pp, "kind": "seed",
                                "note": meta.get("summary", "")})
    # behaviour-preserving refactorings that exercise this property's rules: the check must stay silent
    rd = os.path.join(VERIF, "refactorings")
    if os.path.isdir(rd):
        for d in sorted(os.listdir(rd)):
            mp = os.path.join(rd, d, "meta.json")
            pp = os.path.join(rd, d, "patch.diff")
            if os.path.exists(mp) and os.path.exists(pp):
                try:
                    meta = json.load(open(mp))
                except Exception:
                    continue
                if prop in (meta.get("selftest_silent") or []):
                    out.append({"id": "twin:" + d, "property": prop, "rules": [], "patch": pp, "kind": "twin", "note": meta.get("summary", "")[:200]})
    return out

def run_one(m, base):
    d = tempfile.mkdtemp(prefix="tfselftest-", dir=base)
    repo = os.path.join(d, "repo"); out = os.path.join(d, "out")
    try:
        os.makedirs(repo); os.makedirs(out)
        shutil.copytree(os.path.join(extract.REPO, "src"), os.path.join(repo, "src"))
        for f in ("Cargo.toml", "Cargo.lock"):
            if os.path.exists(os.path.join(extract.REPO, f)):
                shutil.copy(os.path.join(extract.REPO, f), os.path.join(repo, f))
        if m["kind"] == "mutant" and m.get("on"):
            pp = os.path.join(VERIF, "refactorings", m["on"], "patch.diff")
            if not os.path.exists(pp) or subprocess.run(["patch", "-p1", "-s", "--no-backup-if-mismatch", "-i", pp], cwd=repo, capture_output=True, text=True).returncode != 0:
                return dict(id=m["id"], status="skipped", why="refactoring %s does not apply" % m["on"])
        if m["kind"] == "mutant":
            p = os.path.join(repo, m["file"])
            s = open(p).read()
            if m["old"] not in s:
                return dict(id=m["id"], status="skipped", why="text to mutate not present")
            open(p, "w").write(s.replace(m["old"], m["new"], 1))
        else:
            r = subprocess.run(["patch", "-p1", "-s", "-i", m["patch"]], cwd=repo, capture_output=True, text=True)
            if r.returncode != 0:
                return dict(id=m["id"], status="skipped", why="patch does not apply")
        env = dict(os.environ, TF_REPO=repo, TF_OUT=out, VERIF_TIER="quick")
        r = subprocess.run([os.path.join(VERIF, "check"), m["property"], "--tier", "quick"], env=env, capture_output=True, text=True)
        rules = sorted({l.split("rule=")[1].split()[0] for l in r.stdout.splitlines() if "rule=" in l})
        if "build" in rules:
            return dict(id=m["id"], status="skipped", why="mutant does not compile")
        if m["kind"] == "twin":
            # a refactoring that keeps the behaviour: any report is a false alarm of the checker
            return dict(id=m["id"], status="silent" if r.returncode == 0 else "MISS", rules=rules, note=("FALSE ALARM on a behaviour-preserving twin: " if r.returncode else "") + (m.get("note") or ""))
        if r.returncode == 0:
            return dict(id=m["id"], status="MISS", rules=[], note=m.get("note"))
        exp = set(m.get("rules") or [])
        return dict(id=m["id"], status="killed" if (not exp or exp & set(rules)) else "killed-by-other-rule", rules=rules, note=m.get("note"))
    finally:
        shutil.rmtree(d, ignore_errors=True)

def run(prop, jobs=16):
    ms = load_mutants(prop)
    base = os.environ.get("TMPDIR", "/tmp")
    res = []
    with concurrent.futures.ThreadPoolExecutor(max_workers=jobs) as ex:
        for r in ex.map(lambda m: run_one(m, base), ms):
            res.append(r)
    return res
