"""C11: results do not depend on the std / no_std configuration."""
import json, re
from . import vg, norm, helpers as H, facts as F
from .helpers import P, TF
from .terms import mk, tag, all_nodes
from .rules_arith import check_fma

ALLOWED = {"A": "core::f64::<impl f64>::mul_add", "B": "libm::fma"}

def canon_mir(j):
    """raw MIR with configuration-independent spelling (fallback comparison)"""
    s = json.dumps(j, sort_keys=True)
    s = re.sub(r'"sp": "[^"]*"', '"sp": ""', s)
    s = s.replace("std::", "core::")
    s = re.sub(r"\{closure@[^}]*\}", "{closure}", s)
    s = re.sub(r'"(key|item_key|fkey|impl_key)": "[^"]*"', r'"\1": ""', s)
    return s

def wrapper_is_plain_fma(t):
    """the wrapper is a single fused multiply-add of its three scalar arguments (parameters, or the components of a tuple
    parameter), each used exactly once and nothing else; their arrangement is checked where the wrapper is used (R4, R8)"""
    if not (t[0] == "leaf" and tag(t[1]) == "f" and t[1][1] == "fma"):
        return False
    ops = [t[1][2], t[1][3], t[1][4]]
    def scalar_arg(x):
        return tag(x) == "param" or (tag(x) == "field" and tag(x[1]) == "param")
    return all(scalar_arg(x) for x in ops) and len({id(x) for x in ops}) == 3 and len(set(ops)) == 3

def direct_fma_sites(f):
    out = []
    for b in f.live:
        for blk in b.mir["blocks"]:
            t = blk["t"]
            if t["k"] == "call" and "f" in t:
                r = t["f"].get("res") or t["f"]
                d = F.norm_path(r["def"])
                if d in vg.Exec.FMA_NAMES or d.endswith("::mul_add") or d.split("::")[-1] == "fma" and not r.get("local"):
                    out.append((b.ident(), d))
    return out

def check_C11(ctx, rep):
    try:
        fa = ctx.facts("A")
    except Exception:
        raise
    fb = ctx.facts("B")
    for cfg, f in (("A", fa), ("B", fb)):
        check_fma(ctx, rep, f, cfg)
        sites = direct_fma_sites(f)
        wrappers = sorted({s[0] for s in sites})
        rep.check(len(wrappers) == 1 and all(s[1] == ALLOWED[cfg] for s in sites), "R5", "single fma wrapper cfg " + cfg, "fma-sites:" + cfg,
                  "configuration %s reaches a fused multiply-add from %s (expected exactly one wrapper calling %s)" % (cfg, sites, ALLOWED[cfg]),
                  detail={"sites": sites})
        # the wrapper passes (x, y, z) in order
        for w in wrappers:
            b = f.get(w)
            if b is None:
                continue
            t = H.tree_of(f, b, "prim")
            ok = wrapper_is_plain_fma(t)
            rep.check(ok, "R5", "fma wrapper argument order cfg " + cfg, "fma-args:" + cfg,
                      "the crate's fma in configuration %s is not one provider call on its three scalar arguments: %s" % (cfg, vg.show(t)[:200]), where=H.where(b),
                      detail="provider(x, y, z) on the wrapper's three scalar arguments, each used once (which is which is fixed by the conformance rules at the call sites)")
    # R25 configuration diff
    ia = {b.ident(): b for b in fa.live if b.kind != "Closure"}
    ib = {b.ident(): b for b in fb.live if b.kind != "Closure"}
    only_a = sorted(set(ia) - set(ib)); only_b = sorted(set(ib) - set(ia))
    rep.analysed["only_in_A"] = only_a; rep.analysed["only_in_B"] = only_b
    for i in only_a + only_b:
        b = ia.get(i) or ib.get(i)
        # (a private helper that exists in one configuration only - `mod word { pub fn floor(x) { x.floor() } }` under std, a
        #  re-export of libm's under no_std - is read in place by the bodies that call it, which are compared below)
        numeric = (b.output in (TF, "f64") or TF in (b.inputs or [])) and b.reachable
        rep.check(not numeric, "R25", "item in one configuration only: " + i, "cfg-only:" + i,
                  "%s exists in only one feature configuration and is part of the numeric API" % i, where=H.where(b), nontrivial=False)
    n = 0; n_tree = 0; n_raw = 0
    for i in sorted(set(ia) & set(ib)):
        a, b = ia[i], ib[i]
        n += 1
        wrapper = any(s[0] == i for s in direct_fma_sites(fa) + direct_fma_sites(fb))
        if wrapper:
            continue
        same = None
        same, how = same_body(fa, a, fb, b)
        if how.startswith("op-level"):
            n_tree += 1
        else:
            n_raw += 1
        rep.check(same, "R25", i, "cfg-diff:" + i, "%s differs between default features and --no-default-features" % i, where=H.where(a), detail=how,
                  nontrivial=(a.output in (TF, "f64", "(TwoFloat, TwoFloat)")))
    # closures: compare by parent ident order
    ca = {b.key: b for b in fa.live if b.kind == "Closure"}
    cb = {b.key: b for b in fb.live if b.kind == "Closure"}
    common = sorted(set(ca) & set(cb))
    differ = [k for k in common if canon_mir(ca[k].mir) != canon_mir(cb[k].mir)]
    # a closure present in one configuration only must belong to an item that is itself in that configuration only
    lone_keys = [(ia.get(i) or ib.get(i)).key for i in only_a + only_b]
    orphan = [k for k in sorted(set(ca) ^ set(cb)) if not any(k.startswith(pk) for pk in lone_keys)]
    rep.check(not differ and not orphan, "R25", "closures (%d in both configurations)" % len(common), "cfg-diff:closures",
              "closure bodies differ between configurations: %s" % (differ + orphan)[:4], nontrivial=False)
    # constants
    va = {F.norm_path(c["path"]): (c.get("val") or {}).get("hex") or (c.get("val") or {}).get("bits") for c in fa.consts}
    vb = {F.norm_path(c["path"]): (c.get("val") or {}).get("hex") or (c.get("val") or {}).get("bits") for c in fb.consts}
    for k in sorted(set(va) | set(vb)):
        if "::tests::" in k or "::test::" in k:
            continue
        rep.check(va.get(k) == vb.get(k), "R25c", "const " + k, "cfg-diff-const:" + k, "constant %s differs between configurations" % k, nontrivial=False)
    rep.analysed["bodies_compared"] = n; rep.analysed["by_tree"] = n_tree; rep.analysed["by_raw_mir"] = n_raw
    rep.floor("R25", n, 370, "function bodies present in both configurations")


# ------------------------------------------------------------------ configuration transfer (every other property)

def unnumbered(tree):
    """loop snapshots without the numbers of the locals and blocks (a temporary more or less in one configuration shifts them):
    the values, in order"""
    if tree[0] == "if":
        return ("if", tree[1], unnumbered(tree[2]), unnumbered(tree[3]))
    if tree[0] == "switch":
        return ("switch", tree[1], tuple((v, unnumbered(t)) for v, t in tree[2]), unnumbered(tree[3]))
    if tree[0] == "backedge":
        return ("backedge", tree[1], tuple(v for _, v in tree[3]))
    return tree

def same_body(fa, a, fb, b):
    """(same?, how) for one body in the two configurations (fma provider abstracted)"""
    try:
        ta = H.tree_of(fa, a, "op", max_nodes=4000); tb = H.tree_of(fb, b, "op", max_nodes=4000)
        ta = vg.map_tree(ta, norm.strip_provider); tb = vg.map_tree(tb, norm.strip_provider)
        return ta == tb, "op-level decision trees identical"
    except (vg.Unsupported, RecursionError):
        if canon_mir(a.mir) == canon_mir(b.mir) and canon_mir(a.promoted) == canon_mir(b.promoted):
            return True, "canonicalised MIR identical"
    # a body with a loop whose MIR differs (the panic machinery behind an `assert!` with a message is std's in one configuration and
    # core's in the other): loop heads havoc'd, one symbolic iteration per loop - the same evaluation of both bodies
    try:
        ta = H.tree_of(fa, a, "op", max_nodes=8000, loops="havoc"); tb = H.tree_of(fb, b, "op", max_nodes=8000, loops="havoc")
        ta = vg.map_tree(ta, norm.strip_provider); tb = vg.map_tree(tb, norm.strip_provider)
        return unnumbered(ta) == unnumbered(tb), "op-level decision trees (loops havoc'd) identical"
    except (vg.Unsupported, RecursionError):
        return False, "canonicalised MIR differs"

MUL_DEPENDENT = {"C02", "C04", "C05", "C10", "C13", "C14", "C15", "C16", "C17", "C18", "C19"}   # rules that treat `*` as the conforming product

def transfer(ctx, rep, covered, prop=None):
    """RB: the rules of a property are decided on the default-feature build; they carry over to the no_std
    build because every body they evaluated is the same there, the only difference being the fused
    multiply-add provider, which must be libm::fma(x, y, z) behind the crate's single wrapper."""
    fa = ctx.facts("A"); fb = ctx.facts("S" if prop == "C20" else "B")      # C20's serde bodies exist only with the serde feature
    ia = {b.ident(): b for b in fa.live if b.kind != "Closure"}
    ib = {b.ident(): b for b in fb.live if b.kind != "Closure"}
    sites_b = direct_fma_sites(fb)
    wrappers = sorted({s[0] for s in sites_b})
    bad = []
    wa = {s[0] for s in direct_fma_sites(fa)}
    # the provider matters to a property only if its rules evaluated the wrapper or rely on the product operators
    uses_fma = prop in MUL_DEPENDENT or bool((wa | set(wrappers)) & set(covered))
    if not uses_fma:
        wrappers = []
    elif not (len(wrappers) == 1 and all(s[1] == ALLOWED["B"] for s in sites_b)):
        bad.append(("fma-sites", "the no_std build reaches a fused multiply-add from %s (expected one wrapper calling libm::fma)" % (sites_b,), None))
    for w in wrappers:
        b = fb.get(w)
        if b is None:
            continue
        try:
            t = H.tree_of(fb, b, "prim")
            ok = wrapper_is_plain_fma(t)
        except vg.Unsupported:
            ok = False
        if not ok:
            bad.append(("fma-wrapper", "the crate's fma wrapper in the no_std build is not libm::fma(x, y, z) on every path", b))
    all_w = wa | set(wrappers)
    n = 0
    for i in sorted(covered):
        if i.startswith("closure:") or i in all_w:
            continue
        a, b = ia.get(i), ib.get(i)
        if a is None:
            continue
        if b is None:
            if (a.output in (TF, "f64") or TF in (a.inputs or [])) and a.reachable:
                bad.append(("cfg-only:" + i, "%s exists only in the default-feature build" % i, a))
            continue
        n += 1
        same, how = same_body(fa, a, fb, b)
        if not same:
            bad.append(("cfg-diff:" + i, "%s differs between default features and --no-default-features" % i, a))
    va = {F.norm_path(c["path"]): (c.get("val") or {}).get("hex") or (c.get("val") or {}).get("bits") for c in fa.consts}
    vb = {F.norm_path(c["path"]): (c.get("val") or {}).get("hex") or (c.get("val") or {}).get("bits") for c in fb.consts}
    for k in sorted(set(va) & set(vb)):
        if "::tests::" in k or "::test::" in k:
            continue
        if va[k] != vb[k]:
            bad.append(("cfg-diff-const:" + k, "constant %s differs between configurations" % k, None))
    for key, msg, b in bad:
        rep.fail("RB", "configuration transfer: " + key, "transfer:" + key, msg, where=H.where(b) if b is not None else None)
    if not bad:
        rep.ok("RB", "configuration transfer (%d bodies, constants%s)" % (n, ", fma wrapper" if uses_fma else ""), detail="bodies evaluated by this check are identical in the no_std build; provider there is libm::fma(x, y, z)", nontrivial=False)
    rep.analysed["transfer_bodies"] = n
