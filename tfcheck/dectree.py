"""Semantic comparison of decision trees.

A tree's conditions are interpreted over *variables*:
  ("rel", a, b, kind)   the order relation of two operands: lt / eq / gt / un (unordered, floats)
  ("bool", t)           an opaque boolean term
  ("sw", t)             an opaque integer / discriminant term (domain: the values listed by the
                        trees that switch on it, plus "other")
Primitive comparisons on the same operand pair, `partial_cmp` results and the PartialOrd default
methods (lt/le/gt/ge are defined by core in terms of partial_cmp) are all functions of one "rel"
variable, so trees that test `a < b` then `a == b` compare equal to trees that test them in the
other order, and infeasible combinations are never generated.  Two trees are equivalent when they
reach equal leaves under every assignment; the walk is lazy (only variables a tree actually
consults are split on).  No feasibility reasoning beyond this is attempted: a weaker theory can
only make the comparison stricter, never laxer.
"""
import re, struct
from .terms import mk, tag, Node, all_nodes
from . import norm, vg

REL4 = ("lt", "eq", "gt", "un")
REL3 = ("lt", "eq", "gt")

class Undetermined(Exception):
    def __init__(self, var, domain):
        self.var = var; self.domain = domain

def f64v(t):
    return struct.unpack("<d", struct.pack("<Q", t[2]))[0]

def const_rel(a, b, ty):
    if ty in ("f64", "f32"):
        x, y = f64v(a), f64v(b)
        if x != x or y != y:
            return "un"
    elif ty in vg.INT_BITS:
        x, y = vg.to_signed(ty, a[2]), vg.to_signed(ty, b[2])
    else:
        x, y = a[2], b[2]
    return "lt" if x < y else ("gt" if x > y else "eq")

FLIP = {"lt": "gt", "gt": "lt", "eq": "eq", "un": "un"}
OPS = {"lt": ("lt",), "le": ("lt", "eq"), "gt": ("gt",), "ge": ("gt", "eq"), "eq": ("eq",), "ne": ("lt", "gt", "un")}

PORD = "core::cmp::PartialOrd::"
F64_PCMP = "core::cmp::impls::<impl core::cmp::PartialOrd for f64>::partial_cmp"

RANGE_CONTAINS = "core::ops::RangeInclusive::<Idx>::contains"
RANGE_NEW = "core::ops::RangeInclusive::<Idx>::new"
IS_NAN = "core::f64::<impl f64>::is_nan"
IS_FINITE = "core::f64::<impl f64>::is_finite"
IS_SIGN_POSITIVE = "core::f64::<impl f64>::is_sign_positive"
IS_VALID = "TwoFloat::is_valid"     # is_finite(hi) && is_finite(lo) && no_overlap(hi, lo): rule R17; the link below is proved as R12v
OPT_EQ = "<core::option::Option<T> as core::cmp::PartialEq>::eq"

def mixed_eq(n):
    """(method, TwoFloat is the left operand) for `TwoFloat == f64` in either order: the trait's methods by instantiation,
    or the crate's impls by identity"""
    m = re.match(r"^core::cmp::PartialEq::(eq|ne)<(TwoFloat,f64|f64,TwoFloat)>$", n)
    if m:
        return m.group(1), m.group(2).startswith("TwoFloat")
    m = re.match(r"^<(TwoFloat|f64) as core::cmp::PartialEq<(f64|TwoFloat)>>::(eq|ne)$", n)
    if m and m.group(1) != m.group(2):
        return m.group(3), m.group(1) == "TwoFloat"
    return None

def pcmp_kind(name):
    """relation kind if the call name is a partial_cmp whose lt/le/gt/ge siblings derive from it"""
    if name == F64_PCMP:
        return "f64"
    m = re.match(r"^<(.*) as core::cmp::PartialOrd<(.*)>>::partial_cmp$", name)
    if m:
        return "PartialOrd<%s,%s>" % (m.group(1), m.group(2))
    return None

def ordering_const(v):
    """'lt'/'eq'/'gt'/'un' for constant Option<Ordering> aggregates"""
    if tag(v) == "agg" and v[1][0] == "adt" and v[1][1].endswith("Option"):
        if v[1][3] == "None":
            return "un"
        inner = v[2][0]
        if tag(inner) == "agg" and inner[1][0] == "adt" and inner[1][1].endswith("Ordering"):
            return {"Less": "lt", "Equal": "eq", "Greater": "gt"}[inner[1][3]]
    return None

class Env:
    def __init__(self):
        self.val = {}
        self.int_ty = {}      # integer type of a term, read off the comparisons of the trees being compared (shared, not copied)
        self.classified = set()   # f64 terms x for which classify(x) occurs in the trees being compared (shared)
    def copy(self):
        e = Env(); e.val = dict(self.val); e.int_ty = self.int_ty; e.classified = self.classified; return e

CLASSIFY = "core::f64::<impl f64>::classify"
IS_INFINITE = "core::f64::<impl f64>::is_infinite"
IS_NORMAL = "core::f64::<impl f64>::is_normal"

def category(env, x):
    """FpCategory discriminant of x (Nan 0, Infinite 1, Zero 2, Subnormal 3, Normal 4) as the value of the switch variable
    discr(classify(x)): the predicates is_nan / is_infinite / is_normal / is_finite and comparisons with zero are functions of it"""
    return eval_switch(mk("discr", mk("call", CLASSIFY, x)), env, (0, 1, 2, 3, 4))

def collect_int_types(tree, acc, cls=None):
    """term -> integer type, from the integer comparisons and arithmetic in the conditions of a tree"""
    def visit(c):
        for n in all_nodes(c):
            if tag(n) == "call" and n[1] == CLASSIFY and len(n) == 3 and cls is not None:
                cls.add(n[2])
            if tag(n) == "cmp" and n[2] in vg.INT_BITS:
                acc.setdefault(n[3], n[2]); acc.setdefault(n[4], n[2])
            elif tag(n) == "i" and n[2] in vg.INT_BITS:
                acc.setdefault(n, n[2])
            elif tag(n) == "cast" and n[3] in vg.INT_BITS:
                acc.setdefault(n, n[3])
    k = tree[0]
    if k == "if":
        visit(tree[1]); collect_int_types(tree[2], acc, cls); collect_int_types(tree[3], acc, cls)
    elif k == "switch":
        visit(tree[1])
        for _, t in tree[2]:
            collect_int_types(t, acc, cls)
        collect_int_types(tree[3], acc, cls)
    elif k == "rel":
        for t in tree[4].values():
            collect_int_types(t, acc, cls)

# ------------------------------------------------------------------ integers as mathematical values (interval theory)
# Every integer term denotes a mathematical integer (read by the signedness of its type).  Under the conditions already assumed
# on a path, casts that cannot wrap / saturate and arithmetic that cannot overflow are dropped, so that `(n / 32) as usize` and
# `(n as usize) >> 5` for a non-negative n, an index computed in i32 or in isize, `t as i32` and `t as isize` for a small integral
# t, denote one term.  Nothing is dropped without an interval proof from the path's own conditions.
INF = float("inf")
INT_ABS = re.compile(r"^core::num::<impl (i8|i16|i32|i64|i128|isize)>::(abs|unsigned_abs)$")
INT_SIGNQ = re.compile(r"^core::num::<impl (i8|i16|i32|i64|i128|isize)>::(is_negative|is_positive)$")
ZTAGS = ("zadd", "zsub", "zmul", "zdiv", "zmod", "zabs", "toint")

def ty_range(ty):
    n_ = vg.INT_BITS[ty]
    return (-(1 << (n_ - 1)), (1 << (n_ - 1)) - 1) if ty.startswith("i") else (0, (1 << n_) - 1)

def zconst(v):
    return mk("const", "Z", v)

def zval(c):
    """mathematical value of an integer constant node, None for anything else"""
    if tag(c) == "const":
        if c[1] == "Z":
            return c[2]
        if c[1] in vg.INT_BITS:
            return vg.to_signed(c[1], c[2])
    return None

def int_type_of(env, n):
    t = tag(n)
    if t == "i" and n[2] in vg.INT_BITS:
        return n[2]
    if t == "cast" and n[3] in vg.INT_BITS:
        return n[3]
    if t == "const" and n[1] in vg.INT_BITS:
        return n[1]
    if t == "call":
        m = INT_ABS.match(n[1])
        if m:
            return m.group(1) if m.group(2) == "abs" else "u" + m.group(1)[1:]
    return env.int_ty.get(n)

def zbounds(env):
    """bounds (lo, hi) of integer terms implied by the path's conditions, pushed down to the terms they are built from"""
    cached = getattr(env, "_zb", None)
    if cached is not None and cached[0] == len(env.val):
        return cached[1]
    b = {}
    def put(n, lo, hi):
        if zval(n) is not None:
            return
        o = b.get(n, (-INF, INF))
        b[n] = (max(o[0], lo), min(o[1], hi))
    def refine(n, lo, hi, depth=0):
        if depth > 12 or (lo == -INF and hi == INF):
            return
        put(n, lo, hi)
        t = tag(n)
        if t in ("zadd",) or (t == "i" and n[1] in ("add", "sub") and n[2] in vg.INT_BITS and len(n) == 5):
            x, y = (n[1], n[2]) if t == "zadd" else (n[3], n[4])
            sub = (t == "i" and n[1] == "sub")
            cy, cx = zval(y), zval(x)
            if cy is not None:
                d = -cy if not sub else cy
                refine(x, lo + d, hi + d, depth + 1)
            elif cx is not None and not sub:
                refine(y, lo - cx, hi - cx, depth + 1)
            elif cx is not None and sub:
                refine(y, cx - hi, cx - lo, depth + 1)      # c - y in [lo, hi]
        elif t == "zabs" or (t == "call" and len(n) == 3 and INT_ABS.match(n[1])):
            x = n[1] if t == "zabs" else n[2]
            if hi >= 0:
                refine(x, -hi, hi, depth + 1)
        elif t == "cast" and n[1] == "IntToInt" and n[2] in vg.INT_BITS and n[3] in vg.INT_BITS:
            slo, shi = ty_range(n[2]); tlo, thi = ty_range(n[3])
            if tlo <= slo and shi <= thi:
                refine(n[4], lo, hi, depth + 1)       # widening: the value is the operand's
        elif t == "cast" and n[1] == "FloatToInt" and n[3] in vg.INT_BITS:
            tlo, thi = ty_range(n[3])
            put(mk("toint", n[4]), lo if lo > tlo else -INF, hi if hi < thi else INF)     # the cast saturates only at the ends
        elif t == "zdiv":
            c = zval(n[2])
            if c and c > 0:
                refine(n[1], lo * c if lo != -INF else -INF, hi * c + c - 1 if hi != INF else INF, depth + 1)
    for var, r in list(env.val.items()):
        if var[0] == "rel" and (var[3] in vg.INT_BITS or var[3] == "Z") and r in REL3:
            for x, k, rr in ((var[1], var[2], r), (var[2], var[1], FLIP[r])):
                kv = zval(k)
                if kv is not None and zval(x) is None:
                    if rr == "lt":
                        refine(x, -INF, kv - 1)
                    elif rr == "gt":
                        refine(x, kv + 1, INF)
                    else:
                        refine(x, kv, kv)
        elif var[0] == "bool" and tag(var[1]) == "call" and len(var[1]) == 3 and r in (True, False):
            m = INT_SIGNQ.match(var[1][1])
            if m:
                neg = (m.group(2) == "is_negative")
                if neg:
                    refine(var[1][2], *((-INF, -1) if r else (0, INF)))
                else:
                    refine(var[1][2], *((1, INF) if r else (-INF, 0)))
    env._zb = (len(env.val), b)
    return b

def zinterval(env, n, depth=0):
    """interval of the mathematical value of an integer term (raw or canonical) under env"""
    v = zval(n)
    if v is not None:
        return (v, v)
    lo, hi = zbounds(env).get(n, (-INF, INF))
    ty = int_type_of(env, n)
    if ty is not None:
        tlo, thi = ty_range(ty)
        lo, hi = max(lo, tlo), min(hi, thi)
    if depth > 12:
        return (lo, hi)
    t = tag(n)
    s = None
    if t == "toint":
        pass
    elif t in ("zadd", "zsub", "zmul"):
        a = zinterval(env, n[1], depth + 1); c = zinterval(env, n[2], depth + 1)
        if t == "zadd":
            s = (a[0] + c[0], a[1] + c[1])
        elif t == "zsub":
            s = (a[0] - c[1], a[1] - c[0])
        elif -INF not in a + c and INF not in a + c:
            ps = [x * y for x in a for y in c]
            s = (min(ps), max(ps))
    elif t == "zdiv":
        a = zinterval(env, n[1], depth + 1); c = zval(n[2])
        if c and c > 0 and a[0] >= 0:
            s = (a[0] // c, a[1] // c if a[1] != INF else INF)
    elif t == "zmod":
        a = zinterval(env, n[1], depth + 1); c = zval(n[2])
        if c and c > 0 and a[0] >= 0:
            s = (0, min(a[1], c - 1))
    elif t == "zabs":
        a = zinterval(env, n[1], depth + 1)
        s = (0 if a[0] <= 0 <= a[1] else min(abs(a[0]), abs(a[1])), max(abs(a[0]), abs(a[1])))
    elif t == "cast" and n[1] == "IntToInt" and n[3] in vg.INT_BITS:
        a = zinterval(env, n[4], depth + 1)
        if ty_range(n[3])[0] <= a[0] and a[1] <= ty_range(n[3])[1]:
            s = a
    elif t == "cast" and n[1] == "FloatToInt" and n[3] in vg.INT_BITS:
        a = zbounds(env).get(mk("toint", n[4]), (-INF, INF))
        s = a         # saturation keeps the value inside the type's range, applied above
        s = (max(a[0], ty_range(n[3])[0]), min(a[1], ty_range(n[3])[1]))
    if s is not None:
        lo, hi = max(lo, s[0]), min(hi, s[1])
    return (lo, hi)

def _within(iv, ty):
    tlo, thi = ty_range(ty)
    return tlo <= iv[0] and iv[1] <= thi

def zc_(n):
    v = zval(n)
    return n if v is None else zconst(v)

def zstep(env, n):
    """canonical mathematical form of an integer node whose operands are already canonical (the node itself when nothing can be
    proved, or when it is not an integer operation)"""
    t = tag(n)
    if t == "cast" and n[3] in vg.INT_BITS:
        if n[1] == "IntToInt" and (n[2] in vg.INT_BITS):
            if _within(zinterval(env, n[4]), n[3]):
                return n[4]
        elif n[1] == "FloatToInt":
            a = mk("toint", n[4])
            if _within(zbounds(env).get(a, (-INF, INF)), n[3]):
                return a
        return n
    if t == "i" and n[2] in vg.INT_BITS and len(n) == 5:
        op, ty, x, y = n[1], n[2], n[3], n[4]
        cx, cy = zval(x), zval(y)
        if cx is not None and cy is not None:
            return n
        x, y = zc_(x), zc_(y)
        ix, iy = zinterval(env, x), zinterval(env, y)
        if op in ("add", "sub"):
            r = (ix[0] + iy[0], ix[1] + iy[1]) if op == "add" else (ix[0] - iy[1], ix[1] - iy[0])
            if not _within(r, ty):
                return n
            if op == "add" and cx is not None:
                x, y, cx, cy = y, x, cy, cx
            if cy is not None:
                d = cy if op == "add" else -cy
                if tag(x) == "zadd" and zval(x[2]) is not None:
                    d += zval(x[2]); x = x[1]
                return x if d == 0 else mk("zadd", x, zconst(d))
            if op == "add":
                if norm.digest(x) > norm.digest(y):
                    x, y = y, x
                return mk("zadd", zc_(x), zc_(y))
            return mk("zsub", zc_(x), zc_(y))
        if op == "mul" and -INF not in ix + iy and INF not in ix + iy:
            ps = [a * b for a in ix for b in iy]
            if _within((min(ps), max(ps)), ty):
                if cx is not None:
                    x, y = y, x
                elif cy is None and norm.digest(x) > norm.digest(y):
                    x, y = y, x
                return mk("zmul", zc_(x), zc_(y))
            return n
        if op in ("div", "rem") and cy is not None and cy > 0 and ix[0] >= 0:
            return mk("zdiv" if op == "div" else "zmod", x, zconst(cy))
        if op == "shr" and cy is not None and 0 <= cy < vg.INT_BITS[ty] and ix[0] >= 0:
            return mk("zdiv", x, zconst(1 << cy))
        if op == "bitand" and ix[0] >= 0:
            for m_, o_ in ((cy, x), (cx, y)):
                if m_ is not None and m_ >= 0 and (m_ & (m_ + 1)) == 0:
                    return mk("zmod", o_, zconst(m_ + 1))
        return n
    if t == "call" and len(n) == 3:
        m = INT_ABS.match(n[1])
        if m:
            ix = zinterval(env, n[2])
            if m.group(2) == "unsigned_abs" or ix[0] > ty_range(m.group(1))[0]:
                return mk("zabs", n[2])
    return n

_HAS_INT = {}
def has_int(t):
    """does the term contain integer arithmetic or casts to integers at all (most leaves do not)"""
    r = _HAS_INT.get(t)
    if r is None:
        r = any((tag(x) == "i" and x[2] in vg.INT_BITS) or (tag(x) == "cast" and x[3] in vg.INT_BITS) or (tag(x) == "call" and len(x) == 3 and INT_ABS.match(x[1])) for x in all_nodes(t))
        _HAS_INT[t] = r
    return r

def zcanon(env, t):
    from .terms import rebuild
    if type(t) is not Node or not has_int(t):
        return t
    def f(kids):
        # commutative nodes keep their operands in digest order (norm.py), which the rewriting below them may have changed
        tg = kids[0]
        if (tg == "call" and len(kids) == 4 and kids[1].startswith("opc:")) or (tg == "f" and len(kids) == 4 and kids[1] in ("add", "mul")) \
                or (tg == "eft_err" and len(kids) == 4 and kids[1] in ("add", "mul")):
            if norm.digest(kids[2]) > norm.digest(kids[3]):
                kids = (kids[0], kids[1], kids[3], kids[2])
        elif tg == "f" and len(kids) == 5 and kids[1] in ("fma", "fma-") and norm.digest(kids[2]) > norm.digest(kids[3]):
            kids = (kids[0], kids[1], kids[3], kids[2], kids[4])
        return zstep(env, mk(*kids))
    return rebuild(t, f, {})

def zcanon_leaf(env, l):
    if l[0] != "leaf":
        return l
    v = zcanon(env, l[1]); eff = tuple((i, zcanon(env, x)) for i, x in l[2])
    if v is l[1] and all(x is y[1] for x, y in zip((e[1] for e in eff), l[2])):
        return l
    return ("leaf", v, eff)

def z_rel(env, a, b, kind, domain):
    """the relation of two integer terms decided (or named) through their canonical mathematical forms; None when the forms are
    the terms themselves (the typed theory applies)"""
    ca, cb = zval(a), zval(b)
    if ca is not None and cb is not None:
        return ("lt" if ca < cb else ("gt" if ca > cb else "eq")) if kind == "Z" else None
    za = a if ca is not None else zcanon(env, a)
    zb = b if cb is not None else zcanon(env, b)
    if (ca is not None or za is a) and (cb is not None or zb is b) and kind != "Z":
        return None
    if ca is not None or cb is not None:
        x, kv, flip = (zb, ca, True) if ca is not None else (za, cb, False)
        if tag(x) == "zadd" and zval(x[2]) is not None:
            kv -= zval(x[2]); x = x[1]
        xv = zval(x)
        if xv is not None:
            r = "lt" if xv < kv else ("gt" if xv > kv else "eq")
            return FLIP[r] if flip else r
        lo, hi = zinterval(env, x)
        feas = tuple(r for r in REL3 if (r == "lt" and lo < kv) or (r == "gt" and hi > kv) or (r == "eq" and lo <= kv <= hi))
        if len(feas) == 1:
            return FLIP[feas[0]] if flip else feas[0]
        ty = int_type_of(env, x)
        if ty is not None and tag(x) not in ZTAGS and vg.in_range(ty, kv) :
            r = get_rel(env, x, mk("const", ty, vg.from_signed(ty, kv)), ty, REL3)
            return FLIP[r] if flip else r
        v = ("rel", x, zconst(kv), "Z")
        if v not in env.val:
            raise Undetermined(v, feas or REL3)
        r = env.val[v]
        return FLIP[r] if flip else r
    if za is zb:
        return "eq"
    v, sw = rel_var(za, zb, "Z")
    if v not in env.val:
        raise Undetermined(v, REL3)
    r = env.val[v]
    return FLIP[r] if sw else r

def rel_var(a, b, kind):
    """canonical variable and whether operands were swapped"""
    if norm.digest(a) <= norm.digest(b):
        return ("rel", a, b, kind), False
    return ("rel", b, a, kind), True

def get_rel(env, a, b, kind, domain):
    if kind in vg.INT_BITS or kind == "Z":
        r_ = z_rel(env, a, b, kind, domain)
        if r_ is not None:
            return r_
    if tag(a) == "const" and tag(b) == "const" and kind in ("f64",) + tuple(vg.INT_BITS) + ("bool", "char"):
        return const_rel(a, b, kind)
    if kind == "PartialOrd<TwoFloat,TwoFloat>":
        # two valid values compare by their words, lexicographically (that is what partial_cmp does for them: C06 / R12b)
        # (validity is asked for first, so that the answer does not depend on the order in which the conditions are met)
        va = eval_bool(mk("call", IS_VALID, a), env) if tag(a) != "agg" else env.val.get(("bool", mk("call", IS_VALID, a)))
        vb = eval_bool(mk("call", IS_VALID, b), env) if tag(b) != "agg" else env.val.get(("bool", mk("call", IS_VALID, b)))
        if va is True and vb is True:
            rh = get_rel(env, mk("field", a, 0), mk("field", b, 0), "f64", REL4)
            if rh != "eq":
                return rh
            return get_rel(env, mk("field", a, 1), mk("field", b, 1), "f64", REL4)
    if kind in vg.INT_BITS:
        # x + c ? k  is  x ? k - c  (the additions are overflow-checked: the form rules read on as if the checks pass, RD / the
        # totality rules see to it that they do)
        for x_, k_, flip_ in ((a, b, False), (b, a, True)):
            if tag(x_) == "i" and x_[1] in ("add", "sub") and x_[2] == kind and tag(k_) == "const" and (tag(x_[4]) == "const" or (x_[1] == "add" and tag(x_[3]) == "const")):
                inner, c_ = (x_[3], x_[4]) if tag(x_[4]) == "const" else (x_[4], x_[3])
                cv = vg.to_signed(kind, c_[2]) * (1 if x_[1] == "add" else -1)
                nk = vg.to_signed(kind, k_[2]) - cv
                if vg.in_range(kind, nk):
                    r_ = get_rel(env, inner, mk("const", kind, vg.from_signed(kind, nk)), kind, domain)
                    return FLIP[r_] if flip_ else r_
    if kind in ("PartialOrd<TwoFloat,f64>", "PartialOrd<f64,TwoFloat>"):
        # the mixed comparison compares the high word with the number and then the low word with zero (C06 / R12c)
        x, c = (a, b) if kind == "PartialOrd<TwoFloat,f64>" else (b, a)
        r = get_rel(env, mk("field", x, 0), c, "f64", REL4)
        if r == "eq":
            r = get_rel(env, mk("field", x, 1), mk("const", "f64", 0), "f64", REL4)
        return r if kind == "PartialOrd<TwoFloat,f64>" else FLIP[r]
    if kind == "f64":
        # |x| against a non-negative number c: decided by x against c and -c
        for x_, k_, flip_ in ((a, b, False), (b, a, True)):
            if tag(x_) == "call" and x_[1] == "libm::fabs" and len(x_) == 3 and tag(k_) == "const" and tag(x_[2]) != "const":
                kv = f64v(k_)
                if kv == kv and kv > 0 and kv != float("inf"):
                    up = get_rel(env, x_[2], k_, "f64", REL4)
                    if up == "un":
                        r_ = "un"
                    elif up == "gt":
                        r_ = "gt"
                    elif up == "eq":
                        r_ = "eq"
                    else:
                        lo_ = get_rel(env, x_[2], mk("const", "f64", k_[2] ^ (1 << 63)), "f64", REL4)
                        r_ = {"lt": "gt", "eq": "eq", "gt": "lt", "un": "un"}[lo_]
                    return FLIP[r_] if flip_ else r_
    if kind == "f64" and env.classified:
        for x_, k_, flip_ in ((a, b, False), (b, a, True)):
            if x_ in env.classified and tag(k_) == "const":
                kv = f64v(k_)
                cat = category(env, x_)
                if cat == 0 or kv != kv:
                    return "un"
                if cat == 2:
                    r_ = "lt" if 0.0 < kv else ("gt" if 0.0 > kv else "eq")
                    return FLIP[r_] if flip_ else r_
                # a non-zero number: ordered, and not equal to zero (an infinity: not equal to any finite constant)
                domain = tuple(r for r in domain if r != "un" and not (r == "eq" and (kv == 0 or (cat == 1 and abs(kv) != float("inf")))))
    v, sw = rel_var(a, b, kind)
    if a is b and kind in vg.INT_BITS:
        return "eq"
    if kind in ("f64", "f32"):
        for w in (a, b):
            if env.val.get(("bool", mk("call", IS_NAN, w))) is True:
                return "un"
    if v not in env.val:
        dom = domain
        # one operand constant: the relation must be consistent with the relations already
        # assumed between the same term and other constants (a total order plus "unordered")
        ca, cb = tag(a) == "const", tag(b) == "const"
        if ca != cb and (kind in ("f64", "f32") or kind in vg.INT_BITS):
            x, c = (b, a) if ca else (a, b)
            feas = feasible_vs_const(env, x, c, kind, domain)
            # feas is expressed as rel(x, c); convert to the variable's orientation
            x_first = (v[1] is x)
            dom = tuple(r if x_first else FLIP[r] for r in feas)
            if len(dom) == 1:
                env.val[v] = dom[0]
                r = dom[0]
                return FLIP[r] if sw else r
            if not dom:
                dom = domain
        raise Undetermined(v, dom)
    r = env.val[v]
    return FLIP[r] if sw else r

def _cval(c, kind):
    if kind in ("f64", "f32"):
        return f64v(c)
    if kind in vg.INT_BITS:
        return vg.to_signed(kind, c[2])
    return c[2]

NAN_TRANSPARENT = ("libm::fabs", "libm::round", "libm::trunc", "libm::floor", "libm::ceil")
def nan_base(w):
    """x when w = f(x) for an f that is NaN exactly when x is (so an ordered f(x) means x is a number)"""
    for _ in range(4):
        if tag(w) == "call" and w[1] in NAN_TRANSPARENT and len(w) == 3:
            w = w[2]
        elif tag(w) == "field" and w[2] in (0, 1) and tag(w[1]) == "call" and w[1][1] == "libm::modf" and len(w[1]) == 3:
            w = w[1][2]
        elif tag(w) == "f" and w[1] == "neg":
            w = w[2]
        else:
            break
    return w

def feasible_vs_const(env, x, c, kind, domain):
    """relations rel(x, c) consistent with what env already assumes about x versus other constants"""
    cv = _cval(c, kind)
    if cv != cv:
        return ("un",) if "un" in domain else domain
    lo, lo_strict, hi, hi_strict, eqv, nan = None, False, None, False, None, None
    for var, r in env.val.items():
        if var[0] != "rel" or var[3] != kind:
            continue
        if var[1] is x and tag(var[2]) == "const":
            k, rr = _cval(var[2], kind), r
        elif var[2] is x and tag(var[1]) == "const":
            k, rr = _cval(var[1], kind), FLIP[r]
        else:
            continue
        if k != k:
            continue
        if rr == "un":
            nan = True
        else:
            nan = False if nan is None else nan
            if rr == "lt":
                if hi is None or k < hi or (k == hi and not hi_strict):
                    hi, hi_strict = k, True
            elif rr == "gt":
                if lo is None or k > lo or (k == lo and not lo_strict):
                    lo, lo_strict = k, True
            elif rr == "eq":
                eqv = k
    if kind in vg.INT_BITS:
        # integers: strict bounds become inclusive ones, and the type's own range applies
        n_ = vg.INT_BITS[kind]
        tlo, thi = ((-(1 << (n_ - 1)), (1 << (n_ - 1)) - 1) if kind.startswith("i") else (0, (1 << n_) - 1))
        if lo is not None and lo_strict:
            lo, lo_strict = lo + 1, False
        if hi is not None and hi_strict:
            hi, hi_strict = hi - 1, False
        lo = tlo if lo is None else max(lo, tlo)
        hi = thi if hi is None else min(hi, thi)
        zl, zh = zinterval(env, x)
        lo, hi = max(lo, zl), min(hi, zh)
        out = []
        for r in domain:
            if r == "un":
                continue
            if eqv is not None:
                ok = (r == "lt" and eqv < cv) or (r == "eq" and eqv == cv) or (r == "gt" and eqv > cv)
            else:
                ok = (r == "lt" and lo < cv) or (r == "gt" and hi > cv) or (r == "eq" and lo <= cv <= hi)
            if ok:
                out.append(r)
        return tuple(out)
    if kind == "f64":
        # a known sign bit bounds the number: sign positive => x >= 0 (or NaN), sign negative => x <= 0 (or NaN)
        sp = env.val.get(("bool", mk("call", IS_SIGN_POSITIVE, x)))
        if sp is True and (lo is None or lo < 0.0):
            lo, lo_strict = 0.0, False
        if sp is False and (hi is None or hi > 0.0):
            hi, hi_strict = 0.0, False
    isnan_known = env.val.get(("bool", mk("call", IS_NAN, x)))
    if isnan_known is None and tag(x) == "field" and x[2] in (0, 1):
        # a word of a TwoFloat that is ordered against another TwoFloat is not NaN (partial_cmp screens NaN words first: C06 / R12b)
        for var, r in env.val.items():
            if var[0] == "rel" and var[3] == "PartialOrd<TwoFloat,TwoFloat>" and r != "un" and (var[1] is x[1] or var[2] is x[1]):
                isnan_known = False; break
    if isnan_known is None:
        # f(x) ordered against a number for a NaN-transparent f (|.|, the roundings, modf's parts, negation): x is a number
        for var, r in env.val.items():
            if var[0] == "rel" and var[3] == "f64" and r != "un":
                for w in (var[1], var[2]):
                    if w is not x and nan_base(w) is x:
                        isnan_known = False
    if isnan_known is True:
        nan = True
    elif isnan_known is False and nan is None:
        nan = False
    if nan:
        return ("un",) if "un" in domain else domain
    out = []
    for r in domain:
        if r == "un":
            if nan is None:
                out.append(r)
            continue
        ok = True
        if eqv is not None:
            ok = (r == "lt" and eqv < cv) or (r == "eq" and eqv == cv) or (r == "gt" and eqv > cv)
        else:
            if r == "lt":      # x < cv must intersect (lo, hi)
                ok = lo is None or lo < cv
            elif r == "gt":
                ok = hi is None or hi > cv
            elif r == "eq":
                ok = (lo is None or lo < cv or (lo == cv and not lo_strict)) and (hi is None or hi > cv or (hi == cv and not hi_strict))
        if ok:
            out.append(r)
    return tuple(out)

def eval_bool(c, env):
    t = tag(c)
    if t == "const":
        return bool(c[2])
    if t == "not":
        return not eval_bool(c[1], env)
    if t == "cmp":
        op, ty, a, b = c[1], c[2], c[3], c[4]
        if ty == "bool":
            x = eval_bool(a, env); y = eval_bool(b, env)
            r = "lt" if x < y else ("gt" if x > y else "eq")
            return r in OPS[op]
        if op in ("eq", "ne") and ty in vg.INT_BITS:
            # discriminant of an Ordering against a constant: decided by the comparison it came from
            for x, k in ((a, b), (b, a)):
                if tag(x) == "discr" and tag(k) == "const":
                    try:
                        v = eval_switch(x, env, (0, 1, 255))
                    except Undetermined:
                        raise
                    same = (v == k[2])
                    return same if op == "eq" else not same
        dom = REL4 if ty in ("f64", "f32") else REL3
        r = get_rel(env, a, b, ty, dom)
        return r in OPS[op]
    if t == "i" and c[2] == "bool" and c[1] in ("bitand", "bitor", "bitxor") and len(c) == 5:
        x_ = eval_bool(c[3], env); y_ = eval_bool(c[4], env)
        return (x_ and y_) if c[1] == "bitand" else ((x_ or y_) if c[1] == "bitor" else (x_ != y_))
    if t == "i" and c[1] == "sub_ovf" and c[2] in vg.INT_BITS and c[2].startswith("u") and len(c) == 5:
        # x - y wraps for unsigned operands exactly when x < y (`x.checked_sub(1)` is None iff x == 0)
        return get_rel(env, c[3], c[4], c[2], REL3) == "lt"
    if t == "call":
        n = c[1]
        if n.startswith(PORD) and len(c) == 4:
            m = n[len(PORD):]
            meth, _, targs = m.partition("<")
            if meth in ("lt", "le", "gt", "ge"):
                kind = "PartialOrd<" + targs
                r = get_rel(env, c[2], c[3], kind, REL4)
                return r in OPS[meth]
        mq = mixed_eq(n) if len(c) == 4 else None
        if mq:
            # TwoFloat == f64 (either order) is hi == c && lo == 0 (C06 / R12c)
            meth, tf_first = mq
            x, k = (c[2], c[3]) if tf_first else (c[3], c[2])
            r = get_rel(env, mk("field", x, 0), k, "f64", REL4) == "eq" and get_rel(env, mk("field", x, 1), mk("const", "f64", 0), "f64", REL4) == "eq"
            return r if meth == "eq" else not r
        if n.startswith(RANGE_CONTAINS) and len(c) == 4 and tag(c[2]) == "call" and c[2][1].startswith(RANGE_NEW) and len(c[2]) == 4:
            # (lo..=hi).contains(&x)  is  lo <= x && x <= hi  with the PartialOrd impls of the two types
            m = re.match(r"^.*contains<(.*),(.*)>$", n)
            if m:
                idx, u = m.group(1), m.group(2)
                lo, hi, x = c[2][2], c[2][3], c[3]
                r1 = get_rel(env, lo, x, "PartialOrd<%s,%s>" % (idx, u), REL4)
                if r1 not in ("lt", "eq"):
                    return False
                r2 = get_rel(env, x, hi, "PartialOrd<%s,%s>" % (u, idx), REL4)
                return r2 in ("lt", "eq")
        if n.startswith(OPT_EQ) and len(c) == 4:
            for x, y in ((c[2], c[3]), (c[3], c[2])):
                oc = ordering_const(y)
                if oc is not None and tag(x) == "call" and len(x) == 4 and pcmp_kind(x[1]):
                    return get_rel(env, x[2], x[3], pcmp_kind(x[1]), REL4) == oc
    if t == "call" and len(c) == 3 and c[2] in env.classified and c[1] in (IS_NAN, IS_INFINITE, IS_NORMAL, IS_FINITE):
        cat = category(env, c[2])
        return {IS_NAN: cat == 0, IS_INFINITE: cat == 1, IS_NORMAL: cat == 4, IS_FINITE: cat in (2, 3, 4)}[c[1]]
    if t == "call" and len(c) == 3 and c[1] in (IS_INFINITE, IS_FINITE) and tag(c[2]) != "const":
        # infinite: equal to one of the infinities; finite: strictly between them
        pinf = mk("const", "f64", 0x7FF0000000000000); ninf = mk("const", "f64", 0xFFF0000000000000)
        up = get_rel(env, c[2], pinf, "f64", REL4)
        if up == "un":
            return False
        if up == "eq":
            return c[1] == IS_INFINITE
        dn = get_rel(env, c[2], ninf, "f64", REL4)
        return (dn == "eq") if c[1] == IS_INFINITE else (dn == "gt")
    v = ("bool", c)
    if v not in env.val:
        if t == "call" and c[1] == IS_SIGN_POSITIVE and len(c) == 3:
            # the sign bit of a number known to lie strictly on one side of zero (x > k >= 0, x < k <= 0, x == k != 0)
            for var, r in env.val.items():
                if var[0] == "rel" and var[3] == "f64" and r != "un":
                    if var[1] is c[2] and tag(var[2]) == "const":
                        k, rr = f64v(var[2]), r
                    elif var[2] is c[2] and tag(var[1]) == "const":
                        k, rr = f64v(var[1]), FLIP[r]
                    else:
                        continue
                    if k != k:
                        continue
                    if (rr == "gt" and k >= 0.0) or (rr == "eq" and k > 0.0):
                        env.val[v] = True; return True
                    if (rr == "lt" and k <= 0.0) or (rr == "eq" and k < 0.0):
                        env.val[v] = False; return False
        if t == "call" and c[1] == IS_NAN and len(c) == 3:
            # decided by any relation already assumed between the operand and a (non-NaN) constant
            for var, r in env.val.items():
                if var[0] == "rel" and var[3] in ("f64", "f32"):
                    other = var[2] if var[1] is c[2] else (var[1] if var[2] is c[2] else None)
                    if other is not None and tag(other) == "const" and f64v(other) == f64v(other):
                        env.val[v] = (r == "un")
                        return env.val[v]
            # a finite word is not NaN; a word of a valid value is not NaN
            if env.val.get(("bool", mk("call", IS_FINITE, c[2]))) is True:
                env.val[v] = False; return False
            if tag(c[2]) == "field" and c[2][2] in (0, 1) and env.val.get(("bool", mk("call", IS_VALID, c[2][1]))) is True:
                env.val[v] = False; return False
        if t == "call" and c[1] == IS_FINITE and len(c) == 3 and env.val.get(("bool", mk("call", IS_NAN, c[2]))) is True:
            env.val[v] = False; return False
        if t == "call" and c[1] == IS_VALID and len(c) == 3:
            for i in (0, 1):
                if env.val.get(("bool", mk("call", IS_NAN, mk("field", c[2], i)))) is True:
                    env.val[v] = False; return False
            # a finite high word with a zero low word is a valid pair (no_overlap(a, 0) for finite a: C07 / R18)
            hi_fin = lo_zero = False
            for var, r in env.val.items():
                if var[0] == "rel" and var[3] == "f64" and r == "eq":
                    for w, k in ((var[1], var[2]), (var[2], var[1])):
                        if tag(k) == "const" and tag(w) == "field" and w[1] is c[2]:
                            kv = f64v(k)
                            if w[2] == 0 and kv == kv and abs(kv) != float("inf"):
                                hi_fin = True
                            if w[2] == 1 and kv == 0:
                                lo_zero = True
            if hi_fin and lo_zero:
                env.val[v] = True; return True
        raise Undetermined(v, (True, False))
    return env.val[v]

def eval_switch(c, env, listed):
    """value of an integer-valued switch operand"""
    t = tag(c)
    if t == "const":
        return c[2]
    # discriminant of Option<Ordering> from partial_cmp, and of the Ordering inside
    if t == "discr":
        x = c[1]
        if tag(x) == "call" and len(x) == 4 and pcmp_kind(x[1]):
            k = pcmp_kind(x[1])
            r = get_rel(env, x[2], x[3], k, REL4)
            return 0 if r == "un" else 1
        if tag(x) == "field" and x[2] == 0 and tag(x[1]) == "downcast" and x[1][2] == "Some":
            y = x[1][1]
            if tag(y) == "call" and len(y) == 4 and pcmp_kind(y[1]):
                k = pcmp_kind(y[1])
                r = get_rel(env, y[2], y[3], k, REL4)
                return {"lt": 255, "eq": 0, "gt": 1, "un": "other"}[r]
    ity = env.int_ty.get(c)
    if ity is not None and t not in ("discr", "param") and all(isinstance(x, int) for x in listed):
        # an integer term switched on: its value is what its relations with the listed constants say (`match i { 0 => .. }` and
        # `if i == 0 { .. }` are the same test)
        mask = (1 << vg.INT_BITS[ity]) - 1
        for x in sorted(listed):
            if get_rel(env, c, mk("const", ity, x & mask), ity, REL3) == "eq":
                return x
        return "other"
    v = ("sw", c)
    if v not in env.val:
        if t == "discr" and tag(c[1]) == "call" and c[1][1] == "core::f64::<impl f64>::classify":
            raise Undetermined(v, (0, 1, 2, 3, 4))      # FpCategory has exactly these five variants
        raise Undetermined(v, tuple(sorted(listed)) + ("other",))
    return env.val[v]

def switch_values(tree, acc=None):
    """listed values per switch term over a tree"""
    if acc is None:
        acc = {}
    if tree[0] == "if":
        switch_values(tree[2], acc); switch_values(tree[3], acc)
    elif tree[0] == "rel":
        for t in tree[4].values():
            switch_values(t, acc)
    elif tree[0] == "switch":
        acc.setdefault(tree[1], set()).update(v for v, _ in tree[2])
        for _, t in tree[2]:
            switch_values(t, acc)
        switch_values(tree[3], acc)
    return acc

def reduce(tree, env, listed):
    """follow the tree under env until a leaf; raises Undetermined for the next needed variable"""
    while True:
        k = tree[0]
        if k == "if":
            tree = tree[2] if eval_bool(tree[1], env) else tree[3]
        elif k == "switch":
            v = eval_switch(tree[1], env, listed.get(tree[1], ()))
            for val, t in tree[2]:
                if val == v:
                    tree = t; break
            else:
                tree = tree[3]
        elif k == "rel":
            r = get_rel(env, tree[1], tree[2], tree[3], REL4)
            tree = tree[4][r]
        else:
            return tree

TRUE = mk("const", "bool", 1)
FALSE = mk("const", "bool", 0)

def expand_bool_leaves(tree):
    """`ret c` for a non-constant boolean term c becomes `if c { ret true } else { ret false }`"""
    def f(l):
        if l[0] == "leaf" and tag(l[1]) in ("cmp", "call", "not"):
            return ("if", l[1], ("leaf", TRUE, l[2]), ("leaf", FALSE, l[2]))
        return l
    return map_leaves(tree, f)

def expand_ordering_leaves(tree, flip=False):
    """Option<Ordering> results become canonical ("ord", lt|eq|gt|un) leaves; `ret partial_cmp(a,b)`
    becomes a split on the operands' relation.  flip=True reverses the ordering (mirrored impls)."""
    def canon(r):
        return ("ord", FLIP[r] if flip else r)
    def f(l):
        if l[0] != "leaf":
            return l
        v = l[1]
        oc = ordering_const(v)
        if oc is not None:
            return canon(oc)
        if tag(v) == "call" and len(v) == 4 and pcmp_kind(v[1]):
            return ("rel", v[2], v[3], pcmp_kind(v[1]), {r: canon(r) for r in REL4})
        # Some(o) with o taken out of a partial_cmp result (`Some(a.partial_cmp(b)?)`, an arm `Some(o) => Some(o)`): that result
        if tag(v) == "agg" and v[1][0] == "adt" and v[1][3] == "Some" and len(v[2]) == 1:
            o = v[2][0]; rev = False
            while tag(o) == "call" and o[1] == "core::cmp::Ordering::reverse" and len(o) == 3:
                o = o[2]; rev = not rev      # `.map(Ordering::reverse)`
            if tag(o) == "field" and o[2] == 0 and tag(o[1]) == "downcast" and o[1][2] == "Some":
                c = o[1][1]
                if tag(c) == "call" and len(c) == 4 and pcmp_kind(c[1]):
                    return ("rel", c[2], c[3], pcmp_kind(c[1]), {r: canon(FLIP[r] if rev else r) for r in REL4})
        return l
    return map_leaves(tree, f)

def map_terms(tree, f):
    """apply f to every term of a tree (conditions, relation operands, leaf values)"""
    k = tree[0]
    if k == "if":
        return ("if", f(tree[1]), map_terms(tree[2], f), map_terms(tree[3], f))
    if k == "switch":
        return ("switch", f(tree[1]), tuple((v, map_terms(t, f)) for v, t in tree[2]), map_terms(tree[3], f))
    if k == "rel":
        return ("rel", f(tree[1]), f(tree[2]), tree[3], {r: map_terms(t, f) for r, t in tree[4].items()})
    if k == "leaf":
        return ("leaf", f(tree[1]), tuple((i, f(v)) for i, v in tree[2]))
    return tree

def map_leaves(tree, f):
    k = tree[0]
    if k == "if":
        return ("if", tree[1], map_leaves(tree[2], f), map_leaves(tree[3], f))
    if k == "switch":
        return ("switch", tree[1], tuple((v, map_leaves(t, f)) for v, t in tree[2]), map_leaves(tree[3], f))
    return f(tree)

class Mismatch(object):
    def __init__(self, env, l1, l2):
        self.env = env; self.l1 = l1; self.l2 = l2
    def describe(self):
        conds = []
        for v, x in self.env.val.items():
            if v[0] == "rel":
                conds.append("%s %s %s" % (vg.show(v[1])[:60], x, vg.show(v[2])[:60]))
            else:
                conds.append("%s = %s" % (vg.show(v[1])[:80], x))
        return "when " + " and ".join(conds) + ": " + show_leaf(self.l1) + "  vs  " + show_leaf(self.l2)

def show_leaf(l):
    if l[0] == "leaf":
        return vg.Shower(l).tree(l)[:200]
    return repr(l)[:200]

def default_leaf_eq(l1, l2):
    return l1 == l2

def expand_copysign_leaves(tree):
    """a leaf whose value contains copysign(c, x) for a constant c becomes a split on the sign bit of x with +-|c| in its place"""
    from .terms import rebuild
    def find(v):
        for n in all_nodes(v):
            if tag(n) == "call" and n[1] == "libm::copysign" and len(n) == 4 and tag(n[2]) == "const" and n[2][1] == "f64" and tag(n[3]) != "const":
                return n
        return None
    def f(l):
        if l[0] != "leaf":
            return l
        n = find((l[1],) + tuple(v for _, v in l[2]))
        if n is None:
            return l
        mag = n[2][2] & ((1 << 63) - 1)
        def sub(val):
            return lambda a: mk("const", "f64", val) if mk(*a) is n else mk(*a)
        pos = ("leaf", rebuild(l[1], sub(mag), {}), tuple((i, rebuild(v, sub(mag), {})) for i, v in l[2]))
        neg = ("leaf", rebuild(l[1], sub(mag | (1 << 63)), {}), tuple((i, rebuild(v, sub(mag | (1 << 63)), {})) for i, v in l[2]))
        return ("if", mk("call", "core::f64::<impl f64>::is_sign_positive", n[3]), f(pos), f(neg))
    return map_leaves(tree, f)

def equivalent(t1, t2, leaf_eq=default_leaf_eq, budget=200000, assume=None):
    t1 = expand_copysign_leaves(t1); t2 = expand_copysign_leaves(t2)
    """None if the trees agree under every assignment (optionally restricted by `assume`, a
    predicate on Env that may raise Undetermined); else a Mismatch"""
    listed = switch_values(t1);
    for k, v in switch_values(t2).items():
        listed.setdefault(k, set()).update(v)
    count = [0]
    root = Env()
    collect_int_types(t1, root.int_ty, root.classified); collect_int_types(t2, root.int_ty, root.classified)
    def walk(env):
        count[0] += 1
        if count[0] > budget:
            raise RuntimeError("decision-tree comparison budget exceeded")
        try:
            if assume is not None and not assume(env):
                return None
            l1 = reduce(t1, env, listed)
            l2 = reduce(t2, env, listed)
        except Undetermined as u:
            for val in u.domain:
                e2 = env.copy(); e2.val[u.var] = val
                r = walk(e2)
                if r is not None:
                    return r
            return None
        if l1 == ("unreachable",) or l2 == ("unreachable",):
            return None     # rustc proved the arm unreachable (exhaustive match): no such assignment exists
        if not leaf_eq(l1, l2):
            # integer sub-terms read as mathematical values under the path's conditions (casts / arithmetic that cannot wrap dropped)
            c1, c2 = zcanon_leaf(env, l1), zcanon_leaf(env, l2)
            if (c1 is l1 and c2 is l2) or not leaf_eq(c1, c2):
                return Mismatch(env, l1, l2)
        return None
    return walk(root)

def all_outcomes(tree, assume=None, budget=200000):
    """yield (env, leaf) for every assignment class the tree distinguishes"""
    listed = switch_values(tree)
    out = []
    count = [0]
    def walk(env):
        count[0] += 1
        if count[0] > budget:
            raise RuntimeError("budget")
        try:
            if assume is not None and not assume(env):
                return
            l = reduce(tree, env, listed)
        except Undetermined as u:
            for val in u.domain:
                e2 = env.copy(); e2.val[u.var] = val
                walk(e2)
            return
        out.append((env, l))
    walk(Env())
    return out

# ------------------------------------------------------------------ building reference trees

def IF(c, a, b):
    return ("if", c, a, b)

def RET(v):
    return ("leaf", v, ())

def OR(*cs):
    """condition tree helper: returns a function building nested ifs for c1 || c2 || ..."""
    def build(then, els):
        t = els
        for c in reversed(cs):
            t = ("if", c, then, t)
        return t
    return build

def AND(*cs):
    def build(then, els):
        t = then
        for c in reversed(cs):
            t = ("if", c, t, els)
        return t
    return build
