"""Constant oracle: correctly rounded double-doubles of mathematical constants, validity in exact
rationals, table families.  Input is only data taken from the source (const-evaluated words)."""
from fractions import Fraction
import math, struct
import mpmath

PREC1, PREC2 = 600, 900

def bits_of(x):
    return struct.unpack("<Q", struct.pack("<d", x))[0]

def f64_of(bits):
    return struct.unpack("<d", struct.pack("<Q", bits))[0]

def frac_of_bits(bits):
    x = f64_of(bits)
    if math.isnan(x) or math.isinf(x):
        return None
    return Fraction(x)

def mpf_to_frac(m):
    m = mpmath.mpf(m)
    sign, man, exp, bc = m._mpf_
    v = Fraction(man) * (Fraction(2) ** exp)
    return -v if sign else v

def rn(q):
    """round an exact rational to the nearest binary64 (ties to even); returns a Python float"""
    if q == 0:
        return 0.0
    sign = -1 if q < 0 else 1
    a = abs(q)
    # find e with 2^e <= a < 2^(e+1)
    e = a.numerator.bit_length() - a.denominator.bit_length()
    if Fraction(2) ** e > a:
        e -= 1
    elif Fraction(2) ** (e + 1) <= a:
        e += 1
    emin = -1022
    qexp = max(e, emin) - 52          # exponent of the ulp
    scaled = a / (Fraction(2) ** qexp)
    n = scaled.numerator // scaled.denominator
    rem = scaled - n
    if rem > Fraction(1, 2) or (rem == Fraction(1, 2) and (n & 1)):
        n += 1
    val = Fraction(n) * (Fraction(2) ** qexp)
    if val >= Fraction(2) ** 1024:
        return sign * math.inf
    return sign * float(val)

def dd_of_frac(q):
    hi = rn(q)
    lo = rn(q - Fraction(hi))
    return hi, lo

def dd(fn):
    """correctly rounded double-double of the real number computed by fn() under mpmath, at two
    precisions that must agree"""
    out = []
    for p in (PREC1, PREC2):
        with mpmath.workprec(p):
            out.append(dd_of_frac(mpf_to_frac(fn())))
    if out[0] != out[1]:
        raise ValueError("oracle precisions disagree")
    return out[0]

def valid(hi, lo):
    """hi, lo floats: both finite and RN(hi+lo) == hi, in exact rationals"""
    if math.isnan(hi) or math.isinf(hi) or math.isnan(lo) or math.isinf(lo):
        return False
    return rn(Fraction(hi) + Fraction(lo)) == hi

def ulp(x):
    return math.ulp(x)

mp = mpmath.mp

FORMULAS = {
    "E": lambda: mpmath.e + 0,
    "FRAC_1_PI": lambda: 1 / mpmath.pi,
    "FRAC_1_SQRT_2": lambda: 1 / mpmath.sqrt(2),
    "FRAC_2_PI": lambda: 2 / mpmath.pi,
    "FRAC_2_SQRT_PI": lambda: 2 / mpmath.sqrt(mpmath.pi),
    "FRAC_PI_2": lambda: mpmath.pi / 2,
    "FRAC_PI_3": lambda: mpmath.pi / 3,
    "FRAC_PI_4": lambda: mpmath.pi / 4,
    "FRAC_PI_6": lambda: mpmath.pi / 6,
    "FRAC_PI_8": lambda: mpmath.pi / 8,
    "LN_10": lambda: mpmath.log(10),
    "LN_2": lambda: mpmath.log(2),
    "LOG10_2": lambda: mpmath.log(2) / mpmath.log(10),
    "LOG10_E": lambda: 1 / mpmath.log(10),
    "LOG2_10": lambda: mpmath.log(10) / mpmath.log(2),
    "LOG2_E": lambda: 1 / mpmath.log(2),
    "PI": lambda: mpmath.pi + 0,
    "SQRT_2": lambda: mpmath.sqrt(2),
    "TAU": lambda: 2 * mpmath.pi,
}

# private scalar constants are classified by value against this library
EXTRA_FORMULAS = {
    "180/pi": lambda: 180 / mpmath.pi,
    "pi/180": lambda: mpmath.pi / 180,
    "ln(3/2)": lambda: mpmath.log(mpmath.mpf(3) / 2),
    "atan(1/2)": lambda: mpmath.atan(mpmath.mpf(1) / 2),
    "atan(3/2)": lambda: mpmath.atan(mpmath.mpf(3) / 2),
    "1/ln(2)": lambda: 1 / mpmath.log(2),
    "ln(10)": lambda: mpmath.log(10),
    "ln(2)": lambda: mpmath.log(2),
    "pi": lambda: mpmath.pi + 0,
    "pi/2": lambda: mpmath.pi / 2,
    "pi/4": lambda: mpmath.pi / 4,
}

_dd_cache = {}
def dd_named(name):
    if name not in _dd_cache:
        fn = FORMULAS.get(name) or EXTRA_FORMULAS[name]
        _dd_cache[name] = dd(fn)
    return _dd_cache[name]

def classify_scalar(hi, lo):
    """name of the library formula whose dd equals (hi, lo); or (name, 'near') when only the high
    word is within 2 ulp; else None"""
    near = None
    for name in list(EXTRA_FORMULAS) + list(FORMULAS):
        h, l = dd_named(name)
        if h == hi and l == lo:
            return name, "exact"
        if abs(h - hi) <= 2 * ulp(h):
            near = name
    return (near, "near") if near else None

# ---------------------------------------------------------------- table families

FAMILIES = {
    "1/i!": lambda i, k: 1 / mpmath.factorial(i + k),
    "exp((i-k)/128)-1": lambda i, k: mpmath.expm1(mpmath.mpf(i - k) / 128),
    "exp((i+k)/2)": lambda i, k: mpmath.exp(mpmath.mpf(i + k) / 2),
    "exp(16(i+k))": lambda i, k: mpmath.exp(16 * (i + k)),
}

def infer_family(his):
    """(family, offset k, fraction of high words explained) for an array of high words"""
    best = None
    n = len(his)
    for fam, g in FAMILIES.items():
        for k in range(0, 65):
            hits = 0
            with mpmath.workprec(200):
                for i, h in enumerate(his):
                    try:
                        v = g(i, k)
                    except Exception:
                        continue
                    if v == 0 and h == 0:
                        hits += 1
                        continue
                    fv = float(v) if abs(v) < mpmath.mpf(2) ** 1023 else math.inf
                    if fv != 0 and not math.isinf(fv) and abs(fv - h) <= 2 * ulp(fv):
                        hits += 1
            if best is None or hits > best[2]:
                best = (fam, k, hits)
            if hits == n:
                return fam, k, 1.0
    return best[0], best[1], best[2] / float(n)

def family_dd(fam, k, i):
    g = FAMILIES[fam]
    return dd(lambda: g(i, k))
