"""Panic-site inventory with path-sensitive discharge (R24 / R30 / R36 / R40 / R50).

Every public function is analysed as an entry point with arbitrary arguments: private helpers
are inlined (recursive ones up to a bounded depth decided by interval facts, loops by the havoc
abstraction), public callees stay opaque because they are entry points of their own.  Each
`Assert` terminator, each reachable diverging call and each call to a foreign item whose MIR
summary contains a panic site is a *site*; a site must be discharged by
  D-const   the condition folds to a constant,
  D-guard   interval analysis (integers and floats, refined by the dominating branch conditions
            and earlier assertions of the path) proves it,
  D-idiom   a recognised total idiom (unwrap of next() on a non-empty constant slice; constant
            in-range slice indexing),
  D-linked  a reviewed numeric argument with machine-checked side conditions (panics_table.py),
or it is reported with the path that reaches it."""
import math, re, struct
from . import vg, facts as F, helpers as H, idioms
from .terms import mk, tag, all_nodes

INF = math.inf
SIGNED_ABS = re.compile(r"^core::num::<impl (i8|i16|i32|i64|i128|isize)>::abs$")
SIGNED_UABS = re.compile(r"^core::num::<impl (i8|i16|i32|i64|i128|isize)>::unsigned_abs$")
SIGNED_ISNEG = re.compile(r"^core::num::<impl (i8|i16|i32|i64|i128|isize)>::is_negative$")
MAXF = 1.7976931348623157e308

def f64v(t):
    return struct.unpack("<d", struct.pack("<Q", t[2]))[0]

def trange(ty):
    n = vg.INT_BITS[ty]
    if ty.startswith("i"):
        return -(1 << (n - 1)), (1 << (n - 1)) - 1
    return 0, (1 << n) - 1

def round_half_away(x):
    if x != x or math.isinf(x):
        return x
    return math.floor(x + 0.5) if x >= 0 else -math.floor(-x + 0.5)

class Iv(object):
    """closed interval; for floats `nan` tells whether NaN is possible"""
    __slots__ = ("lo", "hi", "nan")
    def __init__(self, lo, hi, nan=False):
        self.lo = lo; self.hi = hi; self.nan = nan
    def __repr__(self):
        return "[%s, %s%s]" % (self.lo, self.hi, ", NaN" if self.nan else "")
    def meet(self, o):
        return Iv(max(self.lo, o.lo), min(self.hi, o.hi), self.nan and o.nan)
    def empty(self):
        return self.lo > self.hi

FULLF = Iv(-INF, INF, True)

class Facts(object):
    """constraints derived from the path: term -> Iv"""
    def __init__(self, known, ptypes):
        self.env = {}
        self.known = known
        self.ptypes = ptypes
        self.memo = {}
        self.notin = {}         # switch operand -> values excluded by the default arm
        self.fclass = {}        # f64 term -> FpCategory discriminant known on the path
        for c, v in list(known.items()):
            if type(v) is tuple:
                if v and v[0] == "notin":
                    self.notin[c] = set(v[1])
                continue
            if tag(c) == "discr" and tag(c[1]) == "call" and c[1][1] == "core::f64::<impl f64>::classify" and len(c[1]) == 3 and type(v) is int:
                # FpCategory: Nan 0, Infinite 1, Zero 2, Subnormal 3, Normal 4
                self.fclass[c[1][2]] = v
                if v in (2, 3, 4):
                    self.restrict(c[1][2], Iv(-MAXF, MAXF, False))
                continue
            self.add(c, bool(v)) if tag(c) in ("cmp", "call", "not", "i") else None

    def restrict(self, t, iv):
        cur = self.env.get(t)
        self.env[t] = iv if cur is None else cur.meet(iv)
        self.memo = {}
        # |x| <= c  =>  -c <= x <= c
        if tag(t) == "call" and (t[1] in ("libm::fabs", "core::f64::<impl f64>::abs") or SIGNED_ABS.match(t[1])) and len(t) == 3 and iv.hi < INF:
            self.restrict(t[2], Iv(-iv.hi, iv.hi, iv.nan))

    def add(self, c, val):
        tg = tag(c)
        if tg == "not":
            return self.add(c[1], not val)
        if tg == "call":
            n = c[1]
            if n == "core::f64::<impl f64>::is_nan" and val is False:
                self.restrict(c[2], Iv(-INF, INF, False))
            elif SIGNED_ISNEG.match(n):
                self.restrict(c[2], Iv(-INF, -1) if val else Iv(0, INF))
            elif n == "TwoFloat::is_valid" and val and len(c) == 3:
                # a valid value has finite words (is_valid = both finite and no_overlap: C07 / R17)
                for i in (0, 1):
                    self.restrict(mk("field", c[2], i), Iv(-MAXF, MAXF, False))
            elif n.startswith("core::ops::RangeInclusive::<Idx>::contains<f64,TwoFloat>") and val and len(c) == 4 \
                    and tag(c[2]) == "call" and c[2][1].startswith("core::ops::RangeInclusive::<Idx>::new<f64>") and len(c[2]) == 4:
                # L <= x && x <= U for a TwoFloat x and f64 bounds holds only for a valid x whose high word lies in [L, U]
                # (the mixed comparisons order by the high word first: C06 / R12)
                lo = self.bounds(c[2][2]); hi = self.bounds(c[2][3])
                if not lo.nan and not hi.nan:
                    self.restrict(mk("field", c[3], 0), Iv(lo.lo, hi.hi, False))
            return
        if tg == "i" and c[1] == "sub_ovf" and c[2] in vg.INT_BITS and c[2].startswith("u") and len(c) == 5:
            # unsigned x - y wraps exactly when x < y
            self._rel("lt" if val else "ge", c[2], c[3], c[4], negated_float=False)
            return
        if tg != "cmp":
            return
        op, ty, a, b = c[1], c[2], c[3], c[4]
        if not val:
            neg = {"lt": "ge", "le": "gt", "gt": "le", "ge": "lt", "eq": "ne", "ne": "eq"}[op]
            isf = ty in ("f64", "f32")
            self._rel(neg, ty, a, b, negated_float=isf)
        else:
            self._rel(op, ty, a, b, negated_float=False)

    def _rel(self, op, ty, a, b, negated_float):
        isf = ty in ("f64", "f32")
        step = 0 if isf else 1
        for x, y, o in ((a, b, op), (b, a, {"lt": "gt", "le": "ge", "gt": "lt", "ge": "le", "eq": "eq", "ne": "ne"}[op])):
            if tag(y) != "const":
                if not isf and ty in vg.INT_BITS and tag(x) != "const":
                    # against another integer term: through that term's own interval
                    by = self.bounds(y)
                    iv = {"lt": Iv(-INF, by.hi - 1), "le": Iv(-INF, by.hi), "gt": Iv(by.lo + 1, INF), "ge": Iv(by.lo, INF), "eq": Iv(by.lo, by.hi)}.get(o)
                    if iv is not None and not (iv.lo == -INF and iv.hi == INF):
                        self.restrict(x, iv)
                continue
            cv = f64v(y) if isf else (vg.to_signed(ty, y[2]) if ty in vg.INT_BITS else y[2])
            if isf and cv != cv:
                continue
            nanflag = negated_float      # a failed float comparison may be due to NaN
            if o == "lt":
                iv = Iv(-INF, (math.nextafter(cv, -INF) if isf else cv - 1), nanflag)
            elif o == "le":
                iv = Iv(-INF, cv, nanflag)
            elif o == "gt":
                iv = Iv((math.nextafter(cv, INF) if isf else cv + 1), INF, nanflag)
            elif o == "ge":
                iv = Iv(cv, INF, nanflag)
            elif o == "eq":
                iv = Iv(cv, cv, nanflag)
            else:
                continue
            if isf and not nanflag:
                iv.nan = False
            elif isf:
                iv.nan = True
            self.restrict(x, iv)

    # ------------------------------------------------------------------ bounds
    def bounds(self, t):
        r = self.memo.get(t)
        if r is None:
            r = self._bounds(t)
            e = self.env.get(t)
            if e is not None:
                r = Iv(max(r.lo, e.lo), min(r.hi, e.hi), r.nan and e.nan)
            self.memo[t] = r
        return r

    def _ity(self, t):
        tg = tag(t)
        if tg == "const":
            return t[1]
        if tg == "i":
            return t[2]
        if tg == "cast":
            return t[3]
        if tg == "havoc":
            return t[2]
        if tg == "param":
            return self.ptypes.get(t[1])
        return None

    def _bounds(self, t):
        tg = tag(t)
        if tg == "const":
            if t[1] in ("f64", "f32"):
                v = f64v(t)
                return Iv(v, v, False) if v == v else Iv(INF, -INF, True)
            if t[1] in vg.INT_BITS:
                v = vg.to_signed(t[1], t[2]); return Iv(v, v)
            return Iv(t[2], t[2])
        if tg == "discr" and tag(t[1]) == "call" and t[1][1] == "core::cmp::impls::<impl core::cmp::PartialOrd for f64>::partial_cmp" and len(t[1]) == 4:
            # Option<Ordering>: None 0, Some 1; two numbers are always comparable
            a = self.bounds(t[1][2]); b = self.bounds(t[1][3])
            return Iv(1, 1) if not (a.nan or b.nan) else Iv(0, 1)
        if tg == "index" and tag(t[1]) == "carray":
            # an element of a constant integer table at an unknown index: between the smallest and the largest entry
            m = re.match(r"^\[(\w+); (\d+)\]$", t[1][1])
            if m and m.group(1) in vg.INT_BITS:
                ety, n = m.group(1), int(m.group(2))
                raw = bytes.fromhex(t[1][2]); sz = len(raw) // max(n, 1)
                vals = [vg.to_signed(ety, int.from_bytes(raw[i * sz:(i + 1) * sz], "little")) for i in range(n)]
                if vals:
                    return Iv(min(vals), max(vals))
        if tg == "call" and SIGNED_UABS.match(t[1]) and len(t) == 3:
            inner = self.bounds(t[2])
            lo = 0 if inner.lo <= 0 <= inner.hi else min(abs(inner.lo), abs(inner.hi))
            ex = self.notin.get(t[2])
            if ex:
                exs = {vg.to_signed("i32", v & 0xffffffff) for v in ex}
                k = 0
                while k in exs and -k in exs:
                    k += 1
                lo = max(lo, k)
            return Iv(lo, max(abs(inner.lo), abs(inner.hi)))
        if tg == "call" and re.match(r"^core::convert::num::<impl core::convert::From<bool> for \w+>::from$", t[1]) and len(t) == 3:
            return Iv(0, 1)
        if tg == "cast" and t[1] == "IntToInt" and t[2] == "bool":
            return Iv(0, 1)
        if tg in ("param", "havoc"):
            ty = self._ity(t)
            if ty in vg.INT_BITS:
                return Iv(*trange(ty))
            if ty == "bool":
                return Iv(0, 1)
            return Iv(-INF, INF, True)
        if tg == "i":
            op, ty = t[1], t[2]
            if ty not in vg.INT_BITS:
                return Iv(-INF, INF)
            lo, hi = trange(ty)
            x = self._exponent_field_of(t)
            if x is not None and x in self.fclass:
                # the biased exponent of a number of known category
                return {4: Iv(1, 2046), 3: Iv(0, 0), 2: Iv(0, 0)}.get(self.fclass[x], Iv(2047, 2047))
            if op == "neg":
                a = self.bounds(t[3]); r = Iv(-a.hi, -a.lo)
            else:
                a = self.bounds(t[3]); b = self.bounds(t[4])
                r = self._iarith(op, a, b, ty)
            if r is None or r.lo < lo or r.hi > hi:
                return Iv(lo, hi)
            return r
        if tg == "cast":
            kind, frm, to, a = t[1], t[2], t[3], t[4]
            ia = self.bounds(a)
            if kind == "IntToInt" and to in vg.INT_BITS:
                lo, hi = trange(to)
                if frm == "bool":
                    return Iv(0, 1)
                if ia.lo >= lo and ia.hi <= hi:
                    return Iv(ia.lo, ia.hi)
                return Iv(lo, hi)
            if kind == "FloatToInt" and to in vg.INT_BITS:
                lo, hi = trange(to)
                l = max(lo, math.trunc(ia.lo)) if ia.lo > -INF else lo
                h = min(hi, math.trunc(ia.hi)) if ia.hi < INF else hi
                if ia.nan:
                    l = min(l, 0); h = max(h, 0)
                if l > h:
                    return Iv(lo, hi)
                return Iv(l, h)
            if kind == "IntToFloat":
                return Iv(float(ia.lo) if ia.lo > -INF else -INF, float(ia.hi) if ia.hi < INF else INF, False)
            return Iv(-INF, INF, True)
        if tg == "f":
            op = t[1]
            if op == "neg":
                a = self.bounds(t[2]); return Iv(-a.hi, -a.lo, a.nan)
            if op in ("add", "sub", "mul", "div"):
                a = self.bounds(t[2]); b = self.bounds(t[3])
                return self._farith(op, a, b)
            return Iv(-INF, INF, True)
        if tg == "call":
            n = t[1]
            if n in ("libm::round", "libm::trunc", "libm::floor", "libm::ceil") and len(t) == 3:
                a = self.bounds(t[2])
                fn = {"libm::round": round_half_away, "libm::trunc": lambda x: float(math.trunc(x)) if abs(x) < 2 ** 63 else x,
                      "libm::floor": lambda x: float(math.floor(x)) if abs(x) < 2 ** 63 else x, "libm::ceil": lambda x: float(math.ceil(x)) if abs(x) < 2 ** 63 else x}[n]
                return Iv(fn(a.lo) if a.lo > -INF else -INF, fn(a.hi) if a.hi < INF else INF, a.nan)
            if n in ("libm::fabs", "core::f64::<impl f64>::abs") and len(t) == 3:
                a = self.bounds(t[2])
                lo = 0.0 if a.lo <= 0 <= a.hi else min(abs(a.lo), abs(a.hi))
                return Iv(lo, max(abs(a.lo), abs(a.hi)), a.nan)
            if SIGNED_ABS.match(n) and len(t) == 3:
                a = self.bounds(t[2])
                lo = 0 if a.lo <= 0 <= a.hi else min(abs(a.lo), abs(a.hi))
                return Iv(lo, max(abs(a.lo), abs(a.hi)))
            if SIGNED_UABS.match(n) and len(t) == 3:
                a = self.bounds(t[2])
                lo = 0 if a.lo <= 0 <= a.hi else min(abs(a.lo), abs(a.hi))
                return Iv(lo, max(abs(a.lo), abs(a.hi)))
            if n == "len" or n.endswith("::len"):
                return Iv(0, INF)
            mz = re.match(r"^core::num::<impl ([iu]\d+|[iu]size)>::(leading_zeros|trailing_zeros|count_ones|count_zeros)$", n)
            if mz and mz.group(1) in vg.INT_BITS and len(t) == 3:
                return Iv(0, vg.INT_BITS[mz.group(1)])
            return Iv(-INF, INF, True)
        return Iv(-INF, INF, True)

    @staticmethod
    def _exponent_field_of(t):
        """x when t is (to_bits(x) >> 52) & 0x7ff"""
        if tag(t) == "i" and t[1] == "bitand" and t[2] == "u64":
            for sh, m in ((t[3], t[4]), (t[4], t[3])):
                if tag(m) == "const" and m[2] == 0x7ff and tag(sh) == "i" and sh[1] == "shr" and tag(sh[4]) == "const" and sh[4][2] == 52 \
                        and tag(sh[3]) == "call" and sh[3][1] == "core::f64::<impl f64>::to_bits" and len(sh[3]) == 3:
                    return sh[3][2]
        return None

    def _iarith(self, op, a, b, ty):
        if op == "add":
            return Iv(a.lo + b.lo, a.hi + b.hi)
        if op == "sub":
            return Iv(a.lo - b.hi, a.hi - b.lo)
        if op == "mul":
            if any(math.isinf(x) for x in (a.lo, a.hi, b.lo, b.hi)):
                return None
            c = [a.lo * b.lo, a.lo * b.hi, a.hi * b.lo, a.hi * b.hi]
            return Iv(min(c), max(c))
        if op in ("div", "rem"):
            if b.lo == b.hi and b.lo > 0 and not any(math.isinf(x) for x in (a.lo, a.hi)):
                d = b.lo
                if op == "div":
                    q = lambda x: abs(x) // d * (1 if x >= 0 else -1)
                    return Iv(q(a.lo), q(a.hi))
                if a.lo >= 0:
                    return Iv(0, min(a.hi, d - 1))
                return Iv(-(d - 1), d - 1)
            return None
        if op == "shr":
            if b.lo == b.hi and a.lo >= 0 and b.lo >= 0 and not math.isinf(a.hi):
                return Iv(a.lo >> b.lo, a.hi >> b.lo)
            return None
        if op == "shl":
            if a.lo >= 0 and b.lo >= 0 and not any(math.isinf(x) for x in (a.hi, b.hi)) and b.hi < 200:
                return Iv(a.lo << b.lo, a.hi << b.hi)
            return None
        if op in ("bitor", "bitxor"):
            if a.lo >= 0 and b.lo >= 0 and not any(math.isinf(x) for x in (a.hi, b.hi)):
                top = (1 << max(int(a.hi), int(b.hi)).bit_length()) - 1      # no bit above the highest bit of either operand
                return Iv(max(a.lo, b.lo) if op == "bitor" else 0, top)
            return None
        if op == "bitand":
            if a.lo >= 0 and b.lo >= 0:
                return Iv(0, min(a.hi, b.hi))
            if b.lo == b.hi and b.lo >= 0:
                return Iv(0, b.lo)
            return None
        return None

    def _farith(self, op, a, b):
        nan = a.nan or b.nan
        if a.empty() or b.empty():
            return Iv(INF, -INF, True)
        try:
            if op == "add":
                lo, hi = a.lo + b.lo, a.hi + b.hi
            elif op == "sub":
                lo, hi = a.lo - b.hi, a.hi - b.lo
            elif op == "mul":
                c = [x * y for x in (a.lo, a.hi) for y in (b.lo, b.hi)]
                if any(z != z for z in c):
                    return Iv(-INF, INF, True)
                lo, hi = min(c), max(c)
            else:
                if b.lo <= 0 <= b.hi:
                    return Iv(-INF, INF, True)
                c = [x / y for x in (a.lo, a.hi) for y in (b.lo, b.hi)]
                if any(z != z for z in c):
                    return Iv(-INF, INF, True)
                lo, hi = min(c), max(c)
        except (OverflowError, ZeroDivisionError):
            return Iv(-INF, INF, True)
        if lo != lo or hi != hi:
            return Iv(-INF, INF, True)
        if op in ("add", "sub") and (math.isinf(a.lo) or math.isinf(a.hi) or math.isinf(b.lo) or math.isinf(b.hi)):
            nan = True      # inf - inf
        return Iv(lo, hi, nan)

    # ------------------------------------------------------------------ deciding conditions
    def decide(self, c):
        tg = tag(c)
        if tg == "const":
            return bool(c[2])
        if tg == "not":
            r = self.decide(c[1])
            return None if r is None else (not r)
        if tg == "call":
            if SIGNED_ISNEG.match(c[1]):
                a = self.bounds(c[2])
                if a.hi < 0: return True
                if a.lo >= 0: return False
            # the two sign queries are complements of each other (f64: the sign bit; TwoFloat: C06 / R12d)
            for pos, neg_ in (("TwoFloat::is_sign_positive", "TwoFloat::is_sign_negative"), ("core::f64::<impl f64>::is_sign_positive", "core::f64::<impl f64>::is_sign_negative")):
                if c[1] in (pos, neg_) and len(c) == 3:
                    other = self.known.get(mk("call", neg_ if c[1] == pos else pos, c[2]))
                    if other is not None and type(other) is not tuple:
                        return not bool(other)
            if c[1].startswith("core::ops::RangeInclusive::<Idx>::contains<") and len(c) == 4 and tag(c[2]) == "call" \
                    and c[2][1].startswith("core::ops::RangeInclusive::<Idx>::new<") and len(c[2]) == 4:
                m = re.match(r"^core::ops::RangeInclusive::<Idx>::contains<(\w+),(\w+)>$", c[1])
                if m and m.group(1) == m.group(2) and m.group(1) in vg.INT_BITS:
                    lo = self.bounds(c[2][2]); hi = self.bounds(c[2][3]); x = self.bounds(c[3])
                    if x.lo >= lo.hi and x.hi <= hi.lo: return True
                    if x.hi < lo.lo or x.lo > hi.hi: return False
            return None
        if tg == "i" and c[1].endswith("_ovf"):
            op, ty = c[1][:-4], c[2]
            if ty not in vg.INT_BITS:
                return None
            a = self.bounds(c[3]); b = self.bounds(c[4])
            r = self._iarith(op, a, b, ty)
            if r is None:
                return None
            lo, hi = trange(ty)
            if r.lo >= lo and r.hi <= hi:
                return False
            if r.hi < lo or r.lo > hi:
                return True
            return None
        if tg != "cmp":
            return None
        op, ty, a, b = c[1], c[2], c[3], c[4]
        if ty == "bool":
            return None
        # the same operands already compared on this path (a == b known false decides a != b, and so on)
        NEG = {"eq": "ne", "ne": "eq", "lt": "ge", "ge": "lt", "gt": "le", "le": "gt"}
        for (x, y, o) in ((a, b, op), (b, a, {"lt": "gt", "gt": "lt", "le": "ge", "ge": "le", "eq": "eq", "ne": "ne"}[op])):
            same = self.known.get(mk("cmp", o, ty, x, y))
            if same is not None and type(same) is not tuple:
                return bool(same)
            if o in ("eq", "ne") or ty not in ("f64", "f32"):
                opp = self.known.get(mk("cmp", NEG[o], ty, x, y))      # for floats only eq/ne are complementary (NaN)
                if opp is not None and type(opp) is not tuple:
                    return not bool(opp)
        ia = self.bounds(a); ib = self.bounds(b)
        if ia.empty() or ib.empty():
            return None
        isf = ty in ("f64", "f32")
        if isf and (ia.nan or ib.nan):
            # a comparison with a possible NaN can only be decided false-ward
            if op in ("lt", "le") and ia.lo > ib.hi: return False
            if op in ("gt", "ge") and ia.hi < ib.lo: return False
            return None
        if op == "lt":
            if ia.hi < ib.lo: return True
            if ia.lo >= ib.hi: return False
        elif op == "le":
            if ia.hi <= ib.lo: return True
            if ia.lo > ib.hi: return False
        elif op == "gt":
            if ia.lo > ib.hi: return True
            if ia.hi <= ib.lo: return False
        elif op == "ge":
            if ia.lo >= ib.hi: return True
            if ia.hi < ib.lo: return False
        elif op == "eq":
            if ia.lo == ia.hi == ib.lo == ib.hi: return True
            if ia.hi < ib.lo or ia.lo > ib.hi: return False
        elif op == "ne":
            if ia.hi < ib.lo or ia.lo > ib.hi: return True
            if ia.lo == ia.hi == ib.lo == ib.hi: return False
        return None

class Site(object):
    def __init__(self, func, kind, detail, cond, path, where, status, why):
        self.func = func; self.kind = kind; self.detail = detail; self.cond = cond
        self.path = path; self.where = where; self.status = status; self.why = why
    def key(self):
        return "%s:%s:%s" % (self.func, self.kind, self.detail)

class Hooks(object):
    recursion_limit = 3
    def __init__(self, facts, entry, linked=None):
        self.facts = facts; self.entry = entry
        self.sites = []
        self.linked = linked or {}
        self.ptypes = {i: t for i, t in enumerate(entry.inputs or [])}
        self.foreign_memo = {}

    def _facts(self, st):
        # parameter types of the *current* frame are unknown for inlined callees: their arguments are
        # terms of the entry function, so only the entry's parameter types are needed
        return Facts(st.known, self.ptypes)

    def decide(self, ex, st, c):
        try:
            r = self._facts(st).decide(c)
        except Exception:
            r = None
        if r is None and tag(c) == "i" and c[1].endswith("_ovf"):
            # the overflow test of a checked_* operation: the reviewed arguments that discharge the same operation written
            # with a plain operator (an overflow assertion) apply to it as well
            try:
                if self.linked_lookup(None, "Overflow", c, st):
                    return False
            except Exception:
                pass
        return r

    def force_inline(self, callee, st):
        return False

    def loop_invariants(self, ex, st, fr, head, entry):
        """interval bounds that integer loop variables have on entry and that one symbolic iteration preserves
        (candidates: the bounds of the entry value under the path facts; refuted candidates are dropped and the
        rest re-checked until all survive): facts about the havoc terms"""
        cands = {}
        fx = self._facts(st)
        for l, (before, hvt) in entry.items():
            ty = hvt[2]
            if ty not in vg.INT_BITS:
                continue
            try:
                iv = fx.bounds(before)
            except Exception:
                continue
            tlo, thi = trange(ty)
            if iv.lo > tlo:
                cands[(l, "ge")] = (hvt, ty, int(iv.lo))
            if iv.hi < thi:
                cands[(l, "le")] = (hvt, ty, int(iv.hi))
        if not cands:
            return []
        quiet = QuietHooks(self)
        def as_fact(h, ty, op, v):
            return mk("cmp", op, ty, h, mk("const", ty, vg.from_signed(ty, v)))
        for _ in range(len(cands) + 1):
            extra = {as_fact(h, ty, op, v): 1 for (l, op), (h, ty, v) in cands.items()}
            try:
                edges = ex.iterate_once(st, fr, head, extra, quiet)
            except (vg.Unsupported, RecursionError):
                return []
            bad = set()
            for known, snap in edges:
                f2 = Facts(known, self.ptypes)
                for (l, op), (h, ty, v) in cands.items():
                    nv = snap.get(l)
                    if nv is None:
                        bad.add((l, op)); continue
                    try:
                        iv = f2.bounds(nv)
                    except Exception:
                        bad.add((l, op)); continue
                    if (op == "ge" and not iv.lo >= v) or (op == "le" and not iv.hi <= v):
                        bad.add((l, op))
            if not bad:
                break
            for k in bad:
                del cands[k]
            if not cands:
                return []
        return [(as_fact(h, ty, op, v), 1) for (l, op), (h, ty, v) in cands.items()]

    def on_assert(self, ex, st, fr, t, cond):
        want = t["expected"]
        fx = self._facts(st)
        c = cond
        dec = fx.decide(c)
        kind = t["msg"]["k"]
        detail = t["msg"].get("op", "")
        func = fr.body.ident()
        if dec is not None and dec == want:
            self.sites.append(Site(func, kind, detail, cond, None, t["sp"], "D-guard", "interval analysis under the path's branch conditions"))
            return
        lk = self.linked_lookup(func, kind, cond, st)
        if lk:
            self.sites.append(Site(func, kind, detail, cond, None, t["sp"], "D-linked", lk)); return
        self.sites.append(Site(func, kind, detail, cond, self.path_of(st), t["sp"], "open", "assertion not provable: %s" % vg.show(cond)[:200]))

    def on_panic(self, ex, st, fr, t, what):
        func = fr.body.ident()
        lk = self.linked_lookup(func, "panic", None, st)
        if lk:
            self.sites.append(Site(func, "panic", "explicit", None, None, t["sp"], "D-linked", lk)); return
        self.sites.append(Site(func, "panic", "explicit", None, self.path_of(st), t["sp"], "open", "reachable panic (%s)" % str(what)[:80]))

    def on_call(self, ex, st, fr, t, name, callee, args):
        if callee is not None or "f" not in t:
            return
        r = t["f"].get("res")
        if not r or r.get("local"):
            return
        if t.get("diverges") or t["t"] is None:
            return      # reported by on_panic
        fk = r.get("fkey")
        reasons = self.foreign_may_panic(fk)
        if not reasons:
            return
        func = fr.body.ident()
        base = F.norm_path(r["def"])
        # D-idiom discharges
        if base == "core::option::Option::<T>::unwrap" and args:
            a = args[0]
            if tag(a) == "call" and a[1].startswith(idioms.NEXT) and tag(a[2]) == "call" and a[2][1].startswith(idioms.REV) and tag(a[2][2]) == "call" and a[2][2][1].startswith(idioms.ITER):
                sl = idioms.slice_of(a[2][2][2])
                if sl is not None and sl[2] - sl[1] >= 1:
                    self.sites.append(Site(func, "call", base, None, None, t["sp"], "D-idiom", "unwrap of next() on a constant slice of %d elements" % (sl[2] - sl[1]))); return
            if tag(a) == "agg" and a[1][0] == "adt" and a[1][3] == "Some":
                self.sites.append(Site(func, "call", base, None, None, t["sp"], "D-const", "unwrap of Some")); return
        if base.startswith(idioms.INDEX) and len(args) == 2:
            sl = idioms.slice_of(mk("deref", mk("call", name, args[0], args[1])))
            n = idioms.array_len(args[0]) if tag(args[0]) == "carray" else None
            if sl is not None and n is not None and 0 <= sl[1] <= sl[2] <= n:
                self.sites.append(Site(func, "call", base, None, None, t["sp"], "D-const", "constant range %d..%d within a table of %d" % (sl[1], sl[2], n))); return
        mpw = re.match(r"^core::num::<impl (u\w+)>::pow$", base)
        if mpw and mpw.group(1) in vg.INT_BITS and len(args) == 2 and tag(args[0]) == "const" and args[0][2] == 2:
            iv = self._facts(st).bounds(args[1])
            if 0 <= iv.lo and iv.hi < vg.INT_BITS[mpw.group(1)]:
                self.sites.append(Site(func, "call", base, None, None, t["sp"], "D-guard", "2^k with k in %r below the width of the type" % iv)); return
        mabs = SIGNED_ABS.match(base)
        if mabs and args:
            iv = self._facts(st).bounds(args[0])
            if iv.lo > -(1 << (vg.INT_BITS[mabs.group(1)] - 1)):
                self.sites.append(Site(func, "call", base, None, None, t["sp"], "D-guard", "argument in %r excludes the type's MIN" % iv)); return
        self.sites.append(Site(func, "call", base, None, self.path_of(st), t["sp"], "open", "foreign callee may panic (%s)" % ", ".join(sorted(reasons))[:120]))

    def foreign_may_panic(self, fk, depth=0):
        if fk is None:
            return set()
        if fk in self.foreign_memo:
            return self.foreign_memo[fk]
        self.foreign_memo[fk] = set()
        s = self.facts.foreign.get(fk)
        out = set()
        if s is None:
            self.foreign_memo[fk] = out
            return out
        if fk.startswith("core::panicking::panic_nounwind") or "precondition_check" in fk:
            # language-level UB checks of unsafe internals (abort, not unwind); safe std code upholds them
            self.foreign_memo[fk] = out
            return out
        if s.get("diverges"):
            out.add("diverges")
        for x in s.get("sites", []):
            out.add(x)
        for c in s.get("calls", []):
            if "key" in c and not c.get("local"):
                sub = self.foreign_may_panic(c["key"], depth + 1)
                if sub:
                    out |= {"via " + c["key"].split("<")[0][-50:]}
        self.foreign_memo[fk] = out
        return out

    def path_of(self, st):
        out = []
        for c, v in st.known.items():
            if type(v) is tuple:
                continue
            out.append("%s = %s" % (vg.show(c)[:100], v))
        return out[-12:]

    def linked_lookup(self, func, kind, cond, st):
        from . import panics_table
        for ent in panics_table.LINKED:
            if ent["kind"] == kind:
                try:
                    if ent["match"](cond, st, self):
                        return "%s: %s" % (ent["name"], ent["why"])
                except Exception:
                    pass
        return None

class QuietHooks(object):
    """decisions of the real hooks, no site recording (used while a loop body is explored for invariants)"""
    def __init__(self, real):
        self.real = real
    def decide(self, ex, st, c):
        return self.real.decide(ex, st, c)
    def force_inline(self, callee, st):
        return self.real.force_inline(callee, st)
    def on_assert(self, ex, st, fr, t, cond): pass
    def on_panic(self, ex, st, fr, t, what): pass
    def on_call(self, ex, st, fr, t, name, callee, args): pass

def analyse(facts, body, linked=None, keep=()):
    """panic sites of one entry point (private helpers inlined)"""
    hooks = Hooks(facts, body, linked)
    pol = vg.Policy(facts, "op", keep=keep, inline_private=True)
    # recursive / looping private helpers are inlined too in this mode
    orig = pol.has_loop_or_recursion
    pol.has_loop_or_recursion = lambda callee: False
    ex = vg.Exec(facts, pol, max_nodes=60000, loops="havoc", hooks=hooks)
    tree = ex.run_body(body)
    analyse.last_covered = set(ex.covered)
    return hooks.sites, tree
analyse.last_covered = set()
