"""Shared helpers for the rule modules."""
from . import vg, norm, facts as F
from .terms import mk, tag, Node, all_nodes

TF = "TwoFloat"

def P(i): return mk("param", i)
def HI(t): return mk("field", t, 0)
def LO(t): return mk("field", t, 1)

_shape_cache = {}

def primitive_idents(facts):
    """idents of the crate's Fast2Sum and three-term renormalisation, identified by conformance"""
    k = id(facts)
    if k not in _shape_cache:
        from . import rules_arith, refs
        _shape_cache[k] = tuple(b.ident() for fn, n in ((refs.FTS, 2), (refs.R3, 3)) for b in rules_arith.find_by_shape(facts, n, fn))
    return _shape_cache[k]

def tree_of(facts, body, level="prim", keep=(), inline_extra=(), args=None, max_nodes=40000, inline_private=None, info=None, loops="reject"):
    """op level: public items (operators, inherent methods) stay opaque; private helpers are inlined so
    that extracting or inlining one does not change the tree; the renormalisation primitives keep
    their (conformance-identified) names."""
    if inline_private is None:
        inline_private = (level == "op")
    if level == "op" and inline_private:
        keep = tuple(keep) + primitive_idents(facts)
    pol = vg.Policy(facts, level, keep=keep, inline_extra=inline_extra, inline_private=inline_private)
    ex = vg.Exec(facts, pol, max_nodes=max_nodes, loops=loops)
    t = ex.run_body(body, args)
    if info is not None:
        info["iterated"] = list(ex.iterated)
        info["covered"] = set(ex.covered)
    return t

def norm_tree(tree, mode="E", eft=None):
    N = norm.Normalizer(mode, eft)
    return vg.map_tree(tree, N.norm)

def canon_tree(tree):
    """structural canonical form of a normalised tree (drops nothing; just tuples)"""
    return tree

def value_of_leaf(leaf, assign=False):
    """The TwoFloat produced: the return value, or for compound assignment the new *self."""
    assert leaf[0] == "leaf"
    if assign:
        for i, v in leaf[2]:
            if i == 0:
                return v
        return None
    return leaf[1]

def pair_of(v):
    """(hi, lo) terms of a TwoFloat-valued term"""
    if tag(v) == "agg" and len(v[2]) == 2:
        return v[2][0], v[2][1]
    return mk("field", v, 0), mk("field", v, 1)

def result_trees_equal(t1, t2, assign1=False, assign2=False):
    """compare two normalised trees: same conditions, same produced values"""
    if t1[0] != t2[0]:
        return False, ("shape", t1[0], t2[0])
    if t1[0] == "leaf":
        v1 = value_of_leaf(t1, assign1); v2 = value_of_leaf(t2, assign2)
        if v1 is None or v2 is None:
            return False, ("no-value", v1, v2)
        a = pair_of(v1); b = pair_of(v2)
        if tag(v1) != "agg" and tag(v2) != "agg":
            ok = v1 is v2
        else:
            ok = a[0] is b[0] and a[1] is b[1]
        if ok:
            return True, None
        d = norm.first_difference(mk("pair", *a), mk("pair", *b))
        return False, d
    if t1[0] == "if":
        if t1[1] is not t2[1]:
            return False, ("cond", t1[1], t2[1])
        ok, d = result_trees_equal(t1[2], t2[2], assign1, assign2)
        if not ok:
            return ok, d
        return result_trees_equal(t1[3], t2[3], assign1, assign2)
    if t1[0] == "switch":
        if t1[1] is not t2[1] or [v for v, _ in t1[2]] != [v for v, _ in t2[2]]:
            return False, ("switch", t1[1], t2[1])
        for (v, a), (_, b) in zip(t1[2], t2[2]):
            ok, d = result_trees_equal(a, b, assign1, assign2)
            if not ok:
                return ok, d
        return result_trees_equal(t1[3], t2[3], assign1, assign2)
    if t1[0] == "panic":
        return (t1 == t2), ("panic", t1, t2)
    return t1 == t2, ("other", t1, t2)

def describe_diff(d):
    if d is None:
        return ""
    if len(d) == 3 and isinstance(d[0], str):
        try:
            return "first difference at %s: %s  vs  %s" % (d[0], vg.show(d[1])[:300], vg.show(d[2])[:300])
        except Exception:
            return repr(d)[:400]
    return repr(d)[:400]

def op_ident(trait, lhs, rhs, name):
    return "<%s as core::ops::%s<%s>>::%s" % (lhs, trait, rhs, name)

def unary_ident(trait, ty, name):
    return "<%s as core::ops::%s>::%s" % (ty, trait, name)

def calls_in(t):
    return [n for n in all_nodes(t) if n[0] == "call"]

def where(body):
    return "%s (%s)" % (body.ident(), body.span)
