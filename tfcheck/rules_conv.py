"""C09: integer and float conversions."""
import math
from . import vg, norm, helpers as H, facts as F, dectree as D, refs
from .dectree import IF, RET
from .helpers import P, HI, LO, TF
from .terms import mk, tag, all_nodes
from .rules_arith import find_by_shape
from .rules_base import get_tree, expect_equiv, call, cmp, tf, c64

SMALL = ["i8", "i16", "i32", "u8", "u16", "u32"]
WIDE = ["i64", "i128", "u64", "u128"]

def tmin(t): return -(1 << (vg.INT_BITS[t] - 1)) if t.startswith("i") else 0
def tmax(t): return (1 << (vg.INT_BITS[t] - 1)) - 1 if t.startswith("i") else (1 << vg.INT_BITS[t]) - 1
def ic(t, v): return mk("const", t, vg.from_signed(t, v))
def i2f(t, x): return mk("cast", "IntToFloat", t, "f64", x)
def f2i(t, x): return mk("cast", "FloatToInt", "f64", t, x)
def fneg(x): return mk("f", "neg", x)
def iop(op, t, a, b): return mk("i", op, t, a, b)
OKr = lambda v: mk("agg", ("adt", "core::result::Result", 0, "Ok"), (v,))
SOME = lambda v: mk("agg", ("adt", "core::option::Option", 1, "Some"), (v,))
ERR = ("ERR",)

def leq_err(l1, l2):
    def is_err(l):
        return l[0] == "leaf" and tag(l[1]) == "agg" and l[1][1][0] == "adt" and l[1][1][3] == "Err"
    if l2 == ERR:
        return is_err(l1)
    if l1 == ERR:
        return is_err(l2)
    return l1 == l2

def check_C09(ctx, rep):
    f = ctx.facts("A")
    a = P(0)
    fts = [b.ident() for b in find_by_shape(f, 2, refs.FTS)]
    if not fts:
        rep.fail("R22", "Fast2Sum", "anchor-lost:fast2sum", "no Fast2Sum primitive (reason=anchor-lost)"); return
    FTS = lambda x, y: call(fts[0], x, y)
    zero = c64(0.0)
    # R21 small integers
    for t in SMALL:
        ident = "<TwoFloat as core::convert::From<%s>>::from" % t
        tr, b = get_tree(rep, f, "R21", ident)
        if tr is not None:
            expect_equiv(rep, "R21", "From<%s>" % t, "from-small:" + t, tr, RET(tf(i2f(t, a), zero)), b, "{n as f64, 0.0} (exact: %d bits fit the significand)" % vg.INT_BITS[t])
        for src in (TF, "&" + TF):
            ident = "<%s as core::convert::TryFrom<%s>>::try_from" % (t, src)
            tr, b = get_tree(rep, f, "R21", ident)
            if tr is None:
                continue
            tv = call("TwoFloat::trunc", a)
            rng = call("core::ops::RangeInclusive::<Idx>::new<f64>", c64(float(tmin(t))), c64(float(tmax(t))))
            cond = call("core::ops::RangeInclusive::<Idx>::contains<f64,TwoFloat>", rng, tv)
            ref = IF(cond, RET(OKr(f2i(t, mk("field", tv, 0)))), ERR)
            expect_equiv(rep, "R21", "%s::try_from(%s)" % (t, src), "tryfrom-small:%s:%s" % (t, src), tr, ref, b,
                         "t = trunc(x); %d <= t <= %d (exact f64 bounds) ? Ok(t.hi as %s) : Err" % (tmin(t), tmax(t), t), leaf_eq=leq_err)
    # R22 wide integers
    for t in WIDE:
        ident = "<TwoFloat as core::convert::From<%s>>::from" % t
        tr, b = get_tree(rep, f, "R22", ident)
        if tr is not None:
            av = i2f(t, a)
            mx = ic(t, tmax(t))
            back = f2i(t, av)
            ref = IF(cmp("eq", av, c64(float(tmax(t)))), RET(FTS(av, fneg(i2f(t, iop("add", t, iop("sub", t, mx, a), ic(t, 1)))))),
                     IF(mk("cmp", "ge", t, a, back), RET(FTS(av, i2f(t, iop("sub", t, a, back)))), RET(FTS(av, fneg(i2f(t, iop("sub", t, back, a)))))))
            expect_equiv(rep, "R22", "From<%s>" % t, "from-wide:" + t, tr, ref, b,
                         "a = n as f64; remainder by the three arms (a == MAX as f64 / n >= a as T / else); pair built by Fast2Sum(a, b)")
        hi_max = float(tmax(t)); hi_min = float(tmin(t))
        for src in (TF, "&" + TF):
            ident = "<%s as core::convert::TryFrom<%s>>::try_from" % (t, src)
            tr, b = get_tree(rep, f, "R22", ident)
            if tr is None:
                continue
            tv = call("TwoFloat::trunc", a)
            th, tl = mk("field", tv, 0), mk("field", tv, 1)
            lower = tf(c64(hi_min), zero); upper = tf(c64(hi_max), c64(-1.0))
            rng = call("core::ops::RangeInclusive::<Idx>::new<TwoFloat>", lower, upper)
            cond = call("core::ops::RangeInclusive::<Idx>::contains<TwoFloat,TwoFloat>", rng, tv)
            nlo = f2i(t, fneg(tl))
            ref = IF(cond,
                     IF(cmp("eq", th, c64(hi_max)), RET(OKr(iop("add", t, iop("sub", t, ic(t, tmax(t)), nlo), ic(t, 1)))),
                        IF(cmp("ge", tl, zero), RET(OKr(iop("add", t, f2i(t, th), f2i(t, tl)))), RET(OKr(iop("sub", t, f2i(t, th), nlo))))),
                     ERR)
            expect_equiv(rep, "R22", "%s::try_from(%s)" % (t, src), "tryfrom-wide:%s:%s" % (t, src), tr, ref, b,
                         "t = trunc(x); {MIN,0} <= t <= {MAX as f64, -1} (= MAX exactly) ? recombine words in integer arithmetic by the three arms : Err", leaf_eq=leq_err)
    # float projections
    for src in (TF, "&" + TF):
        tr, b = get_tree(rep, f, "R21", "<f64 as core::convert::From<%s>>::from" % src)
        if tr is not None:
            expect_equiv(rep, "R21", "f64::from(%s)" % src, "into-f64:" + src, tr, RET(HI(a)), b, "the high word", nontrivial=False)
        tr, b = get_tree(rep, f, "R21", "<f32 as core::convert::From<%s>>::from" % src)
        if tr is not None:
            expect_equiv(rep, "R21", "f32::from(%s)" % src, "into-f32:" + src, tr, RET(mk("cast", "FloatToFloat", "f64", "f32", HI(a))), b, "the high word rounded to f32", nontrivial=False)
    # R23 delegation of the num_traits routes
    n23 = 0
    for t in SMALL + WIDE:
        ident = "<TwoFloat as num_traits::FromPrimitive>::from_%s" % t
        b = f.get(ident)
        if b is None:
            rep.fail("R23", ident, "anchor-lost:" + ident, "%s not found (reason=anchor-lost)" % ident); continue
        tr = H.tree_of(f, b, "none", inline_private=True)
        exp = SOME(call("<TwoFloat as core::convert::From<%s>>::from" % t, a))
        n23 += 1
        rep.check(tr[0] == "leaf" and tr[1] is exp, "R23", "FromPrimitive::from_%s" % t, "delegation:from_" + t, "from_%s is not Some(TwoFloat::from(n)): %s" % (t, vg.show(tr)[:200]), where=H.where(b), nontrivial=False)
        ident = "<TwoFloat as num_traits::ToPrimitive>::to_%s" % t
        b = f.get(ident)
        if b is None:
            rep.fail("R23", ident, "anchor-lost:" + ident, "%s not found (reason=anchor-lost)" % ident); continue
        tr = H.tree_of(f, b, "none", inline_private=True)
        exp = call("core::result::Result::<T, E>::ok<%s,TwoFloatError>" % t, call("<%s as core::convert::TryFrom<&TwoFloat>>::try_from" % t, a))
        # the by-value twin has the identical body (R21/R22 check both twins against the same reference)
        exp2 = call("core::result::Result::<T, E>::ok<%s,TwoFloatError>" % t, call("<%s as core::convert::TryFrom<TwoFloat>>::try_from" % t, a))
        n23 += 1
        ok23 = tr[0] == "leaf" and (tr[1] is exp or tr[1] is exp2)
        if not ok23:
            # the same thing spelled `match T::try_from(self) { Ok(v) => Some(v), Err(_) => None }`: compared with core's plumbing read through
            try:
                tr = H.tree_of(f, b, "op")
                NONE_ = mk("agg", ("adt", "core::option::Option", 0, "None"), ())
                for src_ in ("&TwoFloat", "TwoFloat"):
                    C_ = call("<%s as core::convert::TryFrom<%s>>::try_from" % (t, src_), a)
                    ref_ = ("switch", mk("discr", C_), ((0, ("leaf", SOME(mk("field", mk("downcast", C_, "Ok"), 0)), ())), (1, ("leaf", NONE_, ()))), ("unreachable",))
                    if D.equivalent(tr, ref_) is None:
                        ok23 = True; break
            except (vg.Unsupported, RuntimeError):
                pass
        rep.check(ok23, "R23", "ToPrimitive::to_%s" % t, "delegation:to_" + t, "to_%s is not %s::try_from(self).ok(): %s" % (t, t, vg.show(tr)[:200]), where=H.where(b), nontrivial=False)
    for pre, tys, kind in (("from_", "i", "FromPrimitive"), ("from_", "u", "FromPrimitive"), ("to_", "i", "ToPrimitive"), ("to_", "u", "ToPrimitive")):
        ident = "<TwoFloat as num_traits::%s>::%s%ssize" % (kind, pre, tys)
        b = f.get(ident)
        if b is None:
            rep.fail("R23", ident, "anchor-lost:" + ident, "%s not found" % ident); continue
        if pre == "to_":
            # arm for size v: to_<t>(self) mapped with the lossless / same-width cast to the pointer-sized type, in any spelling
            # (`.map(|i| i as isize)`, `Some(x? as isize)`, `isize::from`): compared semantically with the plumbing read through
            tr = H.tree_of(f, b, "op")
            # (a dispatch on the constant `isize::BITS` instead of `size_of::<isize>()` is folded for this target: its one live arm
            #  is the arm for 8 bytes)
            arms_ = tr[2] if (tr[0] == "switch" and any(tag(n_) == "call" and "size_of" in n_[1] for n_ in all_nodes(tr[1]))) else ((8, tr),)
            ok = True
            if ok:
                for v, sub in arms_:
                    t_ = "%s%d" % (tys, 8 * v)
                    C = call("<TwoFloat as num_traits::ToPrimitive>::to_%s" % t_, a)
                    pay = mk("field", mk("downcast", C, "Some"), 0)
                    conv = vg.Exec(f, vg.Policy(f, "none")).cast("IntToInt", t_, tys + "size", pay)
                    NONE_ = mk("agg", ("adt", "core::option::Option", 0, "None"), ())
                    ref = ("switch", mk("discr", C), ((0, ("leaf", NONE_, ())), (1, ("leaf", SOME(conv), ()))), ("unreachable",))
                    try:
                        ok &= D.equivalent(sub, ref) is None
                    except RuntimeError:
                        ok = False
        else:
            tr = H.tree_of(f, b, "none")
            arms_ = tr[2] if (tr[0] == "switch" and any(tag(n_) == "call" and "size_of" in n_[1] for n_ in all_nodes(tr[1]))) else ((8, tr),)
            ok = True
            if ok:
                for v, sub in arms_:
                    want = "%s%s%d" % (pre, tys, 8 * v)
                    names = [n[1] for n in all_nodes(sub[1]) if tag(n) == "call"] if sub[0] == "leaf" else []
                    named = any(nm.endswith("::" + want) for nm in names)
                    if not named and len(arms_) == 1 and arms_[0][0] == 8:
                        # not a call of the fixed-width route by name: the body may reach the same conversion through a private helper
                        # (`from_word(n as i64)`).  Read semantically: with private plumbing inlined it is the tree of the fixed-width
                        # route applied to the pointer-sized argument cast to that width (lossless for this target's width)
                        fw = f.get("<TwoFloat as num_traits::%s>::%s" % (kind, want))
                        try:
                            if fw is not None:
                                wide = vg.Exec(f, vg.Policy(f, "none")).cast("IntToInt", tys + "size", "%s%d" % (tys, 8 * v), P(0))
                                t1 = H.norm_tree(H.tree_of(f, b, "op")); t2 = H.norm_tree(H.tree_of(f, fw, "op", args=[wide]))
                                named = D.equivalent(t1, t2) is None
                        except (vg.Unsupported, RuntimeError):
                            named = False
                    ok &= named
        n23 += 1
        rep.check(ok, "R23", "%s::%s%ssize" % (kind, pre, tys), "delegation:%s%ssize" % (pre, tys), "%s%ssize does not dispatch on size_of to the matching fixed-width route: %s" % (pre, tys, vg.show(tr)[:300]), where=H.where(b), nontrivial=False)
    b = f.get("<TwoFloat as num_traits::ToPrimitive>::to_f64")
    if b is not None:
        tr = H.tree_of(f, b, "op")
        n23 += 1
        rep.check(tr[0] == "leaf" and tr[1] is SOME(HI(a)), "R23", "ToPrimitive::to_f64", "delegation:to_f64", "to_f64 is not Some(hi): %s" % vg.show(tr)[:200], where=H.where(b), nontrivial=False)
    # NumCast::from: the route table (f64 fast path only up to 2^53, then i128, then u128, f64 as the last resort), compared
    # semantically with Option combinators / `?` / if-let ladders read through
    b = f.get("<TwoFloat as num_traits::NumCast>::from")
    if b is not None:
        FROMS = {t: "<TwoFloat as core::convert::From<%s>>::from" % t for t in ("i128", "u128")}
        try:
            tr = H.tree_of(f, b, "op", keep=tuple(FROMS.values()))
        except vg.Unsupported as u:
            tr = None
            rep.fail("R23", "NumCast::from", "unsupported:numcast", "cannot evaluate NumCast::from: %s" % u, where=H.where(b))
        if tr is not None:
            names = {}
            def scan(x):
                if x[0] in ("if", "switch"):
                    for n in all_nodes(x[1]):
                        if tag(n) == "call":
                            for k in ("to_f64", "to_i128", "to_u128"):
                                if ("::" + k + "<") in n[1] or n[1].endswith("::" + k):
                                    names.setdefault(k, n[1])
                    if x[0] == "if":
                        scan(x[2]); scan(x[3])
                    else:
                        for _, y in x[2]:
                            scan(y)
                        scan(x[3])
            scan(tr)
            n23 += 1
            if set(names) != {"to_f64", "to_i128", "to_u128"}:
                rep.fail("R23", "NumCast::from", "numcast-routes", "NumCast::from does not consult to_f64, to_i128 and to_u128 of its argument: %s" % sorted(names), where=H.where(b))
            else:
                n_ = P(0)
                Fc, Ic, Uc = (call(names[k], n_) for k in ("to_f64", "to_i128", "to_u128"))
                pay = lambda X: mk("field", mk("downcast", X, "Some"), 0)
                # From<f64> is {f, 0.0} (C02/R4) in whichever spelling; the wide-integer impls stay opaque (C09/R22)
                via = lambda X, ty: ("leaf", SOME(tf(pay(X), c64(0.0)) if ty == "f64" else call(FROMS[ty], pay(X))), ())
                NONE_ = ("leaf", mk("agg", ("adt", "core::option::Option", 0, "None"), ()), ())
                def opt(X, some, none):
                    return ("switch", mk("discr", X), ((0, none), (1, some)), ("unreachable",))
                wide = lambda last: opt(Ic, via(Ic, "i128"), opt(Uc, via(Uc, "u128"), last))
                # strictly below 2^53: RN(n) = 2^53 is also the image of the integers 2^53 + 1 and -(2^53 + 1), which the f64 route
                # would return as 2^53 (defect D9, fixed); every integer whose image is below 2^53 in magnitude is its image
                small = cmp("lt", call("libm::fabs", pay(Fc)), c64(2.0 ** 53))
                ref = opt(Fc, IF(small, via(Fc, "f64"), wide(via(Fc, "f64"))), wide(NONE_))
                expect_equiv(rep, "R23", "NumCast::from route table", "numcast-routes", tr, ref, b,
                             "to_f64: |f| < 2^53 -> from(f); else to_i128 -> from, else to_u128 -> from, else from(f); no f64: to_i128, to_u128, None")
    from . import rules_total
    rules_total.totality(rep, f, "R24", rules_total.entries_C09(f), "conversions", min_sites=0, min_entries=60)
    rep.floor("R21", len([o for o in rep.obl if o["rule"] == "R21"]), 22, "small-int and float conversions")
    rep.floor("R22", len([o for o in rep.obl if o["rule"] == "R22"]), 12, "wide-int conversions")
    rep.floor("R23", n23, 26, "num_traits conversion routes")
