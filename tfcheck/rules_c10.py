"""C10: all spellings of an operation give bit-identical results; algebraic identities;
num_traits entry points delegate to their inherent counterparts."""
from . import vg, norm, refs, helpers as H, facts as F
from .helpers import P, HI, LO, TF
from .terms import mk, tag, all_nodes, rebuild, Node
from .rules_arith import check_wrappers, OPS, PAIRS, eft_table, check_sum

KEEP_INHERENT = ("TwoFloat::powi", "TwoFloat::powf", "TwoFloat::recip")

def subst(t, mapping):
    def f(a):
        if a[0] == "param" and a[1] in mapping:
            return mapping[a[1]]
        return mk(*a)
    return rebuild(t, f, {})

def leaf_value(facts, ident, keep, rep, rule):
    b = facts.get(ident)
    if b is None:
        rep.fail(rule, ident, "anchor-lost:" + ident, "%s not found (reason=anchor-lost)" % ident)
        return None
    try:
        t = H.tree_of(facts, b, "prim", keep=keep)
    except vg.Unsupported as u:
        rep.fail(rule, ident, "unsupported:" + ident, "cannot evaluate %s: %s" % (ident, u), where=H.where(b))
        return None
    if t[0] != "leaf":
        rep.fail(rule, ident, "not-straight-line:" + ident, "%s is not straight-line" % ident, where=H.where(b))
        return None
    return t[1]

def check_unary_wrappers(rep, f, trait_path, name, keep=()):
    ref_ident = "<&TwoFloat as %s>::%s" % (trait_path, name)
    val_ident = "<TwoFloat as %s>::%s" % (trait_path, name)
    a = f.get(ref_ident); b = f.get(val_ident)
    for i, x in ((ref_ident, a), (val_ident, b)):
        if x is None:
            rep.fail("R13", i, "anchor-lost:" + i, "%s not found (reason=anchor-lost)" % i)
    if a is None or b is None:
        return
    ta = H.norm_tree(H.tree_of(f, a, "prim", keep=keep)); tb = H.norm_tree(H.tree_of(f, b, "prim", keep=keep))
    ok, d = H.result_trees_equal(ta, tb)
    rep.check(ok, "R13", val_ident, "spelling-differs:" + val_ident, "%s is not bit-identical to %s: %s" % (val_ident, ref_ident, H.describe_diff(d)),
              where=H.where(b), detail="same normal form as " + ref_ident, algebra="E")

POW_RHS = ["i8", "i16", "i32", "u8", "u16", "f64", TF]

def check_pow(rep, f, rhs_types=None, rule_d="R16", rule_s="R13"):
    """every Pow impl returns powi / powf of its operands, in all four by-value / by-reference spellings (C10; C13 and C14
    carry the part that concerns their functions)"""
    zero = vg.f64c(0.0)
    for rt in (rhs_types or POW_RHS):
        base_ident = "<&TwoFloat as num_traits::Pow<&%s>>::pow" % rt
        base = f.get(base_ident)
        if base is None:
            rep.fail(rule_d, base_ident, "anchor-lost:" + base_ident, "%s not found (reason=anchor-lost)" % base_ident); continue
        try:
            bt = H.norm_tree(H.tree_of(f, base, "prim", keep=KEEP_INHERENT))
        except vg.Unsupported as u:
            # an entry point that runs a loop of its own (or a looping private helper) instead of forwarding to its inherent counterpart
            rep.fail(rule_d, base_ident, "delegation:" + base_ident, "%s does not return TwoFloat::%s of its operands: it cannot be read as a forwarding call (%s)"
                     % (base_ident, "powf" if rt in ("f64", TF) else "powi", u), where=H.where(base)); continue
        if rt in ("f64", TF):
            arg = mk("agg", ("adt", "TwoFloat", 0, "TwoFloat"), (P(1), zero)) if rt == "f64" else P(1)
            exp = mk("call", "TwoFloat::powf", P(0), arg)
        else:
            arg = P(1) if rt == "i32" else mk("cast", "IntToInt", rt, "i32", P(1))
            exp = mk("call", "TwoFloat::powi", P(0), arg)
        rep.check(bt[0] == "leaf" and bt[1] is exp, rule_d, base_ident, "delegation:" + base_ident,
                  "%s does not return %s: %s" % (base_ident, vg.show(exp), vg.show(bt)[:300]), where=H.where(base), detail=exp)
        for l in ("&TwoFloat", TF):
            for r in ("&" + rt, rt):
                ident = "<%s as num_traits::Pow<%s>>::pow" % (l, r)
                if ident == base_ident:
                    continue
                b = f.get(ident)
                if b is None:
                    rep.fail(rule_s, ident, "anchor-lost:" + ident, "%s not found (reason=anchor-lost)" % ident); continue
                try:
                    t = H.norm_tree(H.tree_of(f, b, "prim", keep=KEEP_INHERENT))
                except vg.Unsupported as u:
                    rep.fail(rule_s, ident, "spelling-differs:" + ident, "%s cannot be read as the same forwarding call as %s (%s)" % (ident, base_ident, u), where=H.where(b)); continue
                ok, d = H.result_trees_equal(bt, t)
                rep.check(ok, rule_s, ident, "spelling-differs:" + ident, "%s is not bit-identical to %s: %s" % (ident, base_ident, H.describe_diff(d)),
                          where=H.where(b), detail="same normal form as " + base_ident, algebra="E")

# ---------------------------------------------------------------- R15 identities

class _Fold(norm.Normalizer):
    """only folds field-of-aggregate projections (so that inlined pair plumbing disappears)"""
    def _node(self, a):
        if a[0] == "field":
            x, i = a[1], a[2]
            if tag(x) == "agg" and i < len(x[2]) and x[2][i] is not None:
                return x[2][i]
        return mk(*a)
N0 = _Fold("E")

def overflow_corner(rep, name, key, a):
    if key in ("add-comm", "sub-antisym:TwoFloat:TwoFloat") and any(tag(n) == "eft_err" and n[1] in ("add", "sub") for n in all_nodes((a[0], a[1]))):
        # the E-proof swaps the operands of a branch-free 2Sum, whose error term is a function of the exact sum only while no
        # intermediate overflows; `s - b` can overflow although `s = a + b` is finite when |a| is in the last binade
        # (Boldo, Graillat, Muller 2017: the one spurious-overflow case of 2Sum) - recorded: K4
        rep.fail("R15", name + " (overflow corner of 2Sum)", key + ":twosum-overflow",
                 "%s swaps the operands of a branch-free 2Sum on the high words: with a high word of +-f64::MAX the intermediate s - b overflows for one order "
                 "and not for the other (the result is (NaN, NaN) one way and the exact sum the other)" % name)

def prove(rep, f, name, key, lhs, rhs, eft, z_only, witness):
    """lhs/rhs: TwoFloat-valued terms.  E-proof => bit-for-bit; Z-proof => modulo the sign of
    zero words (then the literal bit-for-bit reading is the genuine finding K1 when z_only)."""
    for mode in ("E", "Z"):
        N = norm.Normalizer(mode, eft)
        a = H.pair_of(N.norm(norm.recognise_eft(N0.norm(lhs)))); b = H.pair_of(N.norm(norm.recognise_eft(N0.norm(rhs))))
        if a[0] is b[0] and a[1] is b[1]:
            if mode == "E":
                rep.ok("R15", name, detail="identical normal forms", algebra="E", sample={"hi": a[0], "lo": a[1]})
                overflow_corner(rep, name, key, a)
                return
            # proved only modulo zero signs
            if z_only:
                rep.ok("R15", name + " (modulo sign of zero words)", detail="identical normal forms in algebra Z", algebra="Z")
                overflow_corner(rep, name, key, a)
                rep.fail("R15", name + " (bit-for-bit)", key + ":zero-sign",
                         "%s holds only up to the sign of exactly-zero words: IEEE's x + (-x) = +0 breaks -(x+y) = (-x)+(-y); witness %s" % (name, witness))
            else:
                rep.fail("R15", name, key + ":needs-Z", "%s is provable only modulo the sign of zero words, but was bit-exact on the baseline" % name)
            return
    d = norm.first_difference(mk("pair", *a), mk("pair", *b))
    rep.fail("R15", name, key + ":structural", "%s does not hold: %s" % (name, H.describe_diff(d)), {"lhs": mk("pair", *a), "rhs": mk("pair", *b)})

def check_identities(rep, f):
    # every crate function is inlined; error-free transformations are recognised structurally in the
    # IEEE-operation graph (norm.recognise_eft), so the proofs do not depend on function boundaries
    eft = {}
    keep = ()
    rt, rf = "&" + TF, "&f64"
    V = lambda ident: leaf_value(f, ident, keep, rep, "R15")
    add_tt = V(H.op_ident("Add", rt, rt, "add")); sub_tt = V(H.op_ident("Sub", rt, rt, "sub")); mul_tt = V(H.op_ident("Mul", rt, rt, "mul"))
    add_tf = V(H.op_ident("Add", rt, rf, "add")); add_ft = V(H.op_ident("Add", rf, rt, "add"))
    sub_tf = V(H.op_ident("Sub", rt, rf, "sub")); sub_ft = V(H.op_ident("Sub", rf, rt, "sub"))
    mul_tf = V(H.op_ident("Mul", rt, rf, "mul")); mul_ft = V(H.op_ident("Mul", rf, rt, "mul"))
    neg = V("<&TwoFloat as core::ops::Neg>::neg")
    if any(x is None for x in (add_tt, sub_tt, mul_tt, add_tf, add_ft, sub_tf, sub_ft, mul_tf, mul_ft, neg)):
        return
    a, b = P(0), P(1)
    NEG = lambda x: subst(neg, {0: x})
    fneg = lambda x: mk("f", "neg", x)
    S = lambda t, x, y: subst(t, {0: x, 1: y})
    prove(rep, f, "a+b == b+a", "add-comm", S(add_tt, a, b), S(add_tt, b, a), eft, False, None)
    prove(rep, f, "x+f == f+x", "addf-comm", S(add_tf, a, b), S(add_ft, b, a), eft, False, None)
    prove(rep, f, "x*f == f*x", "mulf-comm", S(mul_tf, a, b), S(mul_ft, b, a), eft, False, None)
    prove(rep, f, "-(-a) == a", "neg-invol", NEG(NEG(a)), mk("agg", ("adt", "TwoFloat", 0, "TwoFloat"), (HI(a), LO(a))), eft, False, None)
    prove(rep, f, "a-b == a+(-b)", "sub-vs-add-neg:TwoFloat:TwoFloat", S(sub_tt, a, b), S(add_tt, a, NEG(b)), eft, True, "a=(-0,-0), b=(+0,+0): a-b=(-0,-0), a+(-b)=(+0,+0)")
    prove(rep, f, "a-b == -(b-a)", "sub-antisym:TwoFloat:TwoFloat", S(sub_tt, a, b), NEG(S(sub_tt, b, a)), eft, True, "3-1=(2,+0), -(1-3)=(2,-0)")
    prove(rep, f, "(-a)*b == -(a*b)", "neg-mul:TwoFloat:TwoFloat", S(mul_tt, NEG(a), b), NEG(S(mul_tt, a, b)), eft, True, "(-1)*1=(-1,+0), -(1*1)=(-1,-0)")
    prove(rep, f, "x-f == x+(-f)", "sub-vs-add-neg:TwoFloat:f64", S(sub_tf, a, b), S(add_tf, a, fneg(b)), eft, True, "x=(-0,-0), f=+0: x-f=(-0,-0), x+(-f)=(+0,+0)")
    prove(rep, f, "f-x == -(x-f)", "sub-antisym:f64:TwoFloat", S(sub_ft, a, b), NEG(S(sub_tf, b, a)), eft, True, "f=0, x=(0,0): f-x=(+0,+0), -(x-f)=(-0,-0)")
    prove(rep, f, "(-x)*f == -(x*f)", "neg-mul:TwoFloat:f64", S(mul_tf, NEG(a), b), NEG(S(mul_tf, a, b)), eft, True, "x=(0,0), f=0: (+0,+0) vs (-0,-0)")

# ---------------------------------------------------------------- R16 delegation

RENAME = {"is_positive": "is_sign_positive", "is_negative": "is_sign_negative"}
CONST_OF = {"max_value": "MAX", "min_value": "MIN", "infinity": "INFINITY", "neg_infinity": "NEG_INFINITY", "nan": "NAN",
            "min_positive_value": "MIN_POSITIVE", "epsilon": "EPSILON"}
NO_COUNTERPART = {"classify", "is_nan", "is_infinite", "is_finite", "is_normal", "integer_decode", "neg_zero", "is_zero", "set_zero", "is_one", "set_one",
                  "from_str_radix"}

def const_value(f, self_ty, name):
    for c in f.consts:
        if c.get("ctx", {}).get("name") == name and F.norm_ty(c.get("ctx", {}).get("self_ty", "")) == self_ty and "trait" not in c.get("ctx", {}):
            v = c.get("val") or {}
            if "hex" in v:
                w = F.words_from_hex(v["hex"])
                return mk("agg", ("adt", "TwoFloat", 0, "TwoFloat"), (mk("const", "f64", w[0]), mk("const", "f64", w[1])))
    return None

def module_const(f, path):
    for c in f.consts:
        if F.norm_path(c["path"]) == path:
            v = c.get("val") or {}
            if "hex" in v:
                w = F.words_from_hex(v["hex"])
                return mk("agg", ("adt", "TwoFloat", 0, "TwoFloat"), (mk("const", "f64", w[0]), mk("const", "f64", w[1])))
    return None

def namesakes(f, b):
    """the methods of the same name in the crate's other num_traits impls for TwoFloat (Float / FloatCore / Signed / ...): an
    entry point may forward to a namesake instead of repeating its body, so they are read in place"""
    me = b.ident()
    return tuple(sorted(i for i, l in f.by_ident.items() if len(l) == 1 and i != me and l[0].name == b.name and l[0].self_ty == TF
                        and l[0].trait and l[0].trait.startswith("num_traits") and l[0].kind != "Closure"))

def same_as_namesake(f, b, ib):
    """the entry point does not call its inherent counterpart but computes the same thing: both read at operator level (their
    private helpers and the crate's other namesakes in place) are one decision tree"""
    from . import dectree as D
    try:
        t1 = H.tree_of(f, b, "op", inline_extra=namesakes(f, b), keep=(ib.ident(),))
        t2 = H.tree_of(f, ib, "op")
        if t1 == t2:
            return True
        return D.equivalent(D.expand_bool_leaves(t1), D.expand_bool_leaves(t2)) is None
    except (vg.Unsupported, RuntimeError, RecursionError):
        return False

def check_delegation_subset(rep, f, names, rule="R16s"):
    """the num_traits Float / FloatCore / Signed entry points named in `names` return exactly their
    inherent counterpart (shared with C10's R16; used by the properties that own those functions)"""
    n = 0
    for b in f.live:
        if not b.trait or not b.trait.startswith("num_traits") or b.self_ty != TF:
            continue
        tr = b.trait.split("::")[-1]
        if b.name not in names:
            continue
        inh = "TwoFloat::" + RENAME.get(b.name, b.name)
        ib = f.get(inh)
        if ib is None or ib.mir["arg_count"] != b.mir["arg_count"]:
            continue
        inst = "%s::%s" % (tr, b.name)
        try:
            t = H.tree_of(f, b, "op", inline_private=False, inline_extra=namesakes(f, b), keep=(inh,))
        except vg.Unsupported as u:
            rep.fail(rule, inst, "unsupported:" + inst, "cannot evaluate %s: %s" % (inst, u), where=H.where(b)); continue
        exp = mk("call", inh, *[P(i) for i in range(b.mir["arg_count"])])
        n += 1
        rep.check((t[0] == "leaf" and t[1] is exp) or same_as_namesake(f, b, ib), rule, inst, "delegation:" + inst, "%s does not return exactly %s: got %s" % (inst, vg.show(exp)[:100], vg.show(t)[:200]),
                  where=H.where(b), detail=exp, nontrivial=False)
    return n

def check_delegation(rep, f):
    zero = vg.f64c(0.0); one = vg.f64c(1.0)
    tfagg = lambda h, l: mk("agg", ("adt", "TwoFloat", 0, "TwoFloat"), (h, l))
    def OP(op, lt, rt, a, b): return mk("call", "op:%s:%s:%s" % (op, lt, rt), a, b)
    n_checked = 0
    sib = {}
    for b in f.live:
        if not b.trait or not b.trait.startswith("num_traits") or b.self_ty != TF or b.kind == "Closure":
            continue
        tr = b.trait.split("::")[-1]
        name = b.name
        if tr not in ("Float", "FloatCore", "Signed", "Zero", "One", "Bounded", "FloatConst"):
            # any other num_traits impl (Euclid, ...): a method that has an inherent namesake with the same
            # arity is an entry point to that function and must return exactly what it returns
            ib = f.get("TwoFloat::" + RENAME.get(name, name))
            if ib is None or ib.mir["arg_count"] != b.mir["arg_count"] or tr in ("Inv", "Pow"):
                continue
        inst = "%s::%s" % (tr, name)
        try:
            # (a Float method may forward to its FloatCore twin or the reverse: the twin is read in place)
            # (the inherent namesake, which the method must return, stays a call also when no property names it)
            t = H.tree_of(f, b, "op", inline_extra=("<TwoFloat as core::default::Default>::default",) + namesakes(f, b), keep=("TwoFloat::" + RENAME.get(name, name),))
        except vg.Unsupported as u:
            rep.fail("R16", inst, "unsupported:" + inst, "cannot evaluate %s: %s" % (inst, u), where=H.where(b)); continue
        if tr in ("Float", "FloatCore"):
            sib.setdefault(name, {})[tr] = (t, b)
        nargs = b.mir["arg_count"]
        params = [P(i) for i in range(nargs)]
        exp = None
        if tr == "FloatConst":
            exp = module_const(f, "consts::" + name)
            if exp is None:
                rep.fail("R16", inst, "anchor-lost:consts::" + name, "constant consts::%s not found (reason=anchor-lost)" % name); continue
        elif name in CONST_OF:
            exp = const_value(f, TF, CONST_OF[name])
            if exp is None:
                rep.fail("R16", inst, "anchor-lost:TwoFloat::" + CONST_OF[name], "associated constant %s not found" % CONST_OF[name]); continue
        elif tr == "Zero" and name == "zero":
            exp = tfagg(zero, zero)
        elif tr == "One" and name == "one":
            exp = tfagg(one, zero)
        elif name == "mul_add" and f.get("TwoFloat::mul_add") is None:
            exp = OP("add", TF, TF, OP("mul", TF, TF, params[0], params[1]), params[2])
        elif name == "abs_sub" and f.get("TwoFloat::abs_sub") is None:
            exp = mk("call", "TwoFloat::abs", OP("sub", TF, TF, params[0], params[1]))
        else:
            inh = "TwoFloat::" + RENAME.get(name, name)
            if f.get(inh) is None:
                if name in NO_COUNTERPART:
                    continue
                rep.note("R16: %s has no inherent counterpart %s; not part of the property" % (inst, inh))
                continue
            exp = mk("call", inh, *params)
        n_checked += 1
        got = t[1] if t[0] == "leaf" else None
        # Default::default() inlined as zeros
        same = got is exp
        if not same and tag(exp) == "call" and f.get(exp[1]) is not None and all(x is P(i) for i, x in enumerate(exp[2:])):
            same = same_as_namesake(f, b, f.get(exp[1]))
        rep.check(same, "R16", inst, "delegation:" + inst,
                  "%s does not return exactly %s: got %s" % (inst, vg.show(exp)[:200], vg.show(t)[:300]), where=H.where(b), detail=exp, nontrivial=True)
    # Float / FloatCore siblings agree (X)
    for name, d in sorted(sib.items()):
        if len(d) == 2:
            (t1, b1), (t2, b2) = d["Float"], d["FloatCore"]
            same = t1 == t2
            if not same:
                # the same decisions spelled differently in the two impl blocks (`a || b` vs a tuple match)
                try:
                    from . import dectree as D
                    same = D.equivalent(D.expand_bool_leaves(t1), D.expand_bool_leaves(t2)) is None
                except RuntimeError:
                    same = False
            rep.check(same, "R16x", "Float::%s vs FloatCore::%s" % (name, name), "sibling:" + name,
                      "Float::%s and FloatCore::%s differ: %s vs %s" % (name, name, vg.show(t1)[:200], vg.show(t2)[:200]), where=H.where(b1),
                      detail="identical op-level trees", nontrivial=False)
    # provided-but-not-overridden trait methods that have an inherent namesake
    reviewed = {("num_traits::Float", "copysign"): "default body: if self.is_sign_negative() == sign.is_sign_negative() { self } else { self.neg() }; equals inherent copysign (reviewed)",
                ("num_traits::Float", "clamp"): "no inherent namesake", }
    for im in f.impls:
        tr = F.norm_path(im["trait"])
        if not tr.startswith("num_traits") or F.norm_ty(im["self_ty"]) != TF:
            continue
        if tr.split("::")[-1] not in ("Float", "FloatCore", "Signed", "Inv", "Pow", "One", "Zero", "Bounded", "FloatConst"):
            # the property names these traits; e.g. FromPrimitive::from_f64's default (via i64, truncating)
            # differs from the inherent const fn from_f64 but is outside the statement (recorded as an observation)
            continue
        for m in im.get("inherited_defaults", []):
            if f.get("TwoFloat::" + m) is not None:
                key = (tr, m)
                rep.check(key in reviewed, "R16d", "%s::%s (default body)" % (tr, m), "unreviewed-default:%s::%s" % (tr, m),
                          "trait default %s::%s is not overridden although TwoFloat::%s exists and is not on the reviewed list" % (tr, m, m),
                          detail=reviewed.get(key), nontrivial=False)
    # Inv
    for ident in ("<&TwoFloat as num_traits::Inv>::inv",):
        b = f.get(ident)
        if b is None:
            rep.fail("R16", ident, "anchor-lost:" + ident, "%s not found" % ident); continue
        # (either of the two Inv impls may be the one that forwards to the other: the by-value one is read in place)
        t = H.tree_of(f, b, "op", inline_extra=("<TwoFloat as num_traits::Inv>::inv",))
        exp = mk("call", "TwoFloat::recip", P(0))
        rep.check(t[0] == "leaf" and t[1] is exp, "R16", ident, "delegation:" + ident, "Inv::inv is not recip(self): %s" % vg.show(t)[:200], where=H.where(b), detail=exp)
        n_checked += 1
    rep.floor("R16", n_checked, 100, "num_traits methods with an inherent counterpart")

def check_C10(ctx, rep):
    f = ctx.facts("A")
    check_wrappers(ctx, rep, f, ops=OPS)
    check_unary_wrappers(rep, f, "core::ops::Neg", "neg")
    check_unary_wrappers(rep, f, "num_traits::Inv", "inv", keep=KEEP_INHERENT)
    check_pow(rep, f)
    check_identities(rep, f)
    check_delegation(rep, f)
    check_sum(ctx, rep, f)
    from .rules_arith import check_product
    check_product(ctx, rep, f, rule="R7p")
    rep.floor("R13", len([o for o in rep.obl if o["rule"] == "R13"]), 68, "operator spellings")
    rep.floor("R14", len([o for o in rep.obl if o["rule"] == "R14"]), 20, "compound assignments")
    rep.floor("R15", len([o for o in rep.obl if o["rule"] == "R15" and o["status"] == "ok"]), 10, "identities")
