"""C12 (published constants) and the constant-data rules shared with C14/C15/C16/C17."""
import math
from fractions import Fraction
from . import vg, helpers as H, facts as F, oracle
from .helpers import P, TF
from .terms import mk, tag

def tf_const_words(c):
    v = c.get("val") or {}
    if "hex" not in v:
        return None
    w = F.words_from_hex(v["hex"])
    return oracle.f64_of(w[0]), oracle.f64_of(w[1])

def hexs(x):
    return float.hex(x) if not (math.isnan(x)) else "NaN"

def assoc_const(f, name):
    for c in f.consts:
        ctx = c.get("ctx", {})
        if ctx.get("name") == name and F.norm_ty(ctx.get("self_ty", "")) == TF and "trait" not in ctx and c["ty"] == TF:
            return c
    return None

def agg_words(v):
    if tag(v) == "agg" and len(v[2]) == 2 and all(tag(x) == "const" for x in v[2]):
        return oracle.f64_of(v[2][0][2]), oracle.f64_of(v[2][1][2])
    return None

def check_C12(ctx, rep):
    f = ctx.facts("A")
    # R27 the 19 named constants
    found = 0
    by_path = {F.norm_path(c["path"]): c for c in f.consts}
    for name in sorted(oracle.FORMULAS):
        c = by_path.get("consts::" + name)
        if c is None or c["ty"] != TF or not c.get("reachable", True):
            rep.fail("R27", "consts::" + name, "anchor-lost:consts::" + name, "public constant consts::%s not found (reason=anchor-lost)" % name)
            continue
        found += 1
        got = tf_const_words(c)
        exp = oracle.dd_named(name)
        rep.check(got == exp, "R27", "consts::" + name, "not-dd:consts::" + name,
                  "consts::%s = (%s, %s) is not the correctly rounded double-double (%s, %s)" % (name, hexs(got[0]), hexs(got[1]), hexs(exp[0]), hexs(exp[1])),
                  where=c["span"], detail={"hi": hexs(got[0]), "lo": hexs(got[1]), "valid": oracle.valid(*got)})
    # any further public TwoFloat constant in consts must be known
    for p, c in sorted(by_path.items()):
        if p.startswith("consts::") and c["ty"] == TF and p.split("::")[-1] not in oracle.FORMULAS and "::tests::" not in p:
            got = tf_const_words(c)
            rep.check(got is not None and oracle.valid(*got), "R27", p, "unknown-const:" + p, "public constant %s is not in the formula library and is not a valid pair" % p,
                      where=c["span"], nontrivial=False, detail="unlisted constant: validity only")
    rep.floor("R27", found, 19, "named constants")
    # FloatConst accessors return the same bits
    n = 0
    for b in f.live:
        if b.trait == "num_traits::FloatConst" and b.self_ty == TF:
            t = H.tree_of(f, b, "op")
            w = agg_words(t[1]) if t[0] == "leaf" else None
            exp = oracle.dd_named(b.name) if b.name in oracle.FORMULAS else None
            n += 1
            rep.check(w is not None and w == exp, "R27f", "FloatConst::" + b.name, "floatconst:" + b.name,
                      "FloatConst::%s() does not return dd(%s): %s" % (b.name, b.name, vg.show(t)[:200]), where=H.where(b), nontrivial=False)
    rep.floor("R27f", n, 19, "FloatConst accessors")
    # R28 associated constants
    fmax = 1.7976931348623157e308
    half = 2.0 ** 970
    b0 = half if oracle.valid(fmax, half) else math.nextafter(half, 0.0)
    assert oracle.valid(fmax, b0) and not oracle.valid(fmax, math.nextafter(b0, math.inf))
    expect = {"MAX": (fmax, b0), "MIN": (-fmax, -b0), "MIN_POSITIVE": (2.0 ** -1022, 0.0)}
    for name, exp in expect.items():
        c = assoc_const(f, name)
        if c is None:
            rep.fail("R28", "TwoFloat::" + name, "anchor-lost:TwoFloat::" + name, "associated constant %s not found (reason=anchor-lost)" % name); continue
        got = tf_const_words(c)
        rep.check(got == exp and math.copysign(1, got[1]) == math.copysign(1, exp[1]) or (got == exp and name == "MIN_POSITIVE"), "R28", "TwoFloat::" + name, "assoc-const:" + name,
                  "TwoFloat::%s = (%s, %s), expected (%s, %s) (largest/smallest pair for which is_valid() can hold)" % (name, hexs(got[0]), hexs(got[1]), hexs(exp[0]), hexs(exp[1])),
                  where=c["span"], detail={"hi": hexs(got[0]), "lo": hexs(got[1])})
    c = assoc_const(f, "NAN")
    if c is None:
        rep.fail("R28", "TwoFloat::NAN", "anchor-lost:TwoFloat::NAN", "associated constant NAN not found")
    else:
        got = tf_const_words(c)
        rep.check(math.isnan(got[0]) and math.isnan(got[1]), "R28", "TwoFloat::NAN", "assoc-const:NAN", "TwoFloat::NAN words are (%r, %r), expected both NaN" % got, where=c["span"])
    # "NAN compares unequal to itself": eq returns false whenever any word is NaN (shared with C06/R12)
    from . import rules_base
    rules_base.nan_screen(rep, f, "R28n", only_eq=True)
    rules_base.ne_override(rep, f, "R28n", TF, TF)      # `!=` is the provided negation of eq unless overridden; then the override has to be it
    for name, sgn in (("INFINITY", 1.0), ("NEG_INFINITY", -1.0)):
        c = assoc_const(f, name)
        if c is None:
            rep.fail("R28", "TwoFloat::" + name, "anchor-lost:TwoFloat::" + name, "associated constant %s not found" % name); continue
        got = tf_const_words(c)
        rep.check(math.isinf(got[0]) and math.copysign(1, got[0]) == sgn and not oracle.valid(*got), "R28", "TwoFloat::" + name, "assoc-const:" + name,
                  "TwoFloat::%s = (%r, %r) is not an invalid value with high word %sinf" % (name, got[0], got[1], "-" if sgn < 0 else "+"), where=c["span"])
    # R29 angle factors
    for meth, formula in (("to_degrees", "180/pi"), ("to_radians", "pi/180")):
        b = f.get("TwoFloat::" + meth)
        if b is None:
            rep.fail("R29", meth, "anchor-lost:" + meth, "TwoFloat::%s not found (reason=anchor-lost)" % meth); continue
        t = H.tree_of(f, b, "op")
        ok = False; w = None
        if t[0] == "leaf" and tag(t[1]) == "call" and t[1][1] == "op:mul:TwoFloat:TwoFloat":
            x, k = t[1][2], t[1][3]
            if x is not P(0):
                x, k = k, x
            w = agg_words(k)
            ok = x is P(0) and w == oracle.dd_named(formula)
        rep.check(ok, "R29", "TwoFloat::" + meth, "angle-factor:" + meth, "%s is not self * dd(%s): %s" % (meth, formula, vg.show(t)[:200]), where=H.where(b),
                  detail={"factor": [hexs(w[0]), hexs(w[1])] if w else None, "shape": "self * K (Alg. 12, <= 5u^2 + 2^-107 < 6*2^-106)"})
    # the trait routes to the two conversions are the conversions themselves (not each other)
    from .rules_c10 import check_delegation_subset
    check_delegation_subset(rep, f, {"to_degrees", "to_radians"}, rule="R29d")
