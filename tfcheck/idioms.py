"""Idiom summaries (enumerated from the repository, one recogniser each).

polynomial!  --  `iter().rev(); next().unwrap(); fold(init, |a, n| x * a + n)` over a constant
table or a slice of one becomes ("horner", x, ("coeffs", carray, lo, hi)): Horner evaluation
acc = c[hi-1]; acc = x*acc + c[i] for i = hi-2 .. lo, in TwoFloat arithmetic."""
import re
from . import vg, helpers as H, facts as F
from .helpers import P, TF
from .terms import mk, tag, rebuild, all_nodes

FOLD = "<core::iter::Rev<I> as core::iter::Iterator>::fold"
NEXT = "<core::iter::Rev<I> as core::iter::Iterator>::next"
REV = "core::iter::Iterator::rev"
ITER = "core::slice::<impl [T]>::iter"
UNWRAP = "core::option::Option::<T>::unwrap"
INDEX = "core::array::<impl core::ops::Index<I> for [T; N]>::index"

def closure_is_horner_step(facts, key):
    """|a, n| x * a + n with x the single capture"""
    b = facts.by_key.get(key)
    if b is None:
        return False
    try:
        t = H.tree_of(facts, b, "op")
    except vg.Unsupported:
        return False
    if t[0] != "leaf":
        return False
    v = t[1]
    x = mk("deref", mk("field", P(0), 0))
    exp = mk("call", "op:add:TwoFloat:TwoFloat", mk("call", "op:mul:TwoFloat:TwoFloat", x, P(1)), P(2))
    return v is exp

def array_len(carr):
    m = re.match(r"^\[(.*); (\d+)\]$", carr[1])
    return int(m.group(2)) if m else None

def slice_of(s):
    """(carray, lo, hi) for a table or a constant-range slice of one"""
    if tag(s) == "carray":
        n = array_len(s)
        return (s, 0, n) if n is not None else None
    if tag(s) == "deref" and tag(s[1]) == "call" and s[1][1].startswith(INDEX) and len(s[1]) == 4:
        arr, rng = s[1][2], s[1][3]
        if tag(arr) != "carray" or tag(rng) != "agg" or rng[1][0] != "adt":
            return None
        n = array_len(arr)
        kind = rng[1][1].split("::")[-1]
        vals = [x[2] if tag(x) == "const" else None for x in rng[2]]
        if any(v is None for v in vals):
            return None
        if kind == "Range" and len(vals) == 2:
            return arr, vals[0], vals[1]
        if kind == "RangeTo" and len(vals) == 1:
            return arr, 0, vals[0]
        if kind == "RangeFrom" and len(vals) == 1:
            return arr, vals[0], n
        if kind == "RangeFull":
            return arr, 0, n
    return None

def rewrite(term, facts, stats=None):
    ok_closures = {}
    def f(a):
        if a[0] == "call" and a[1].startswith(FOLD) and len(a) == 5:
            it, init, clo = a[2], a[3], a[4]
            if tag(it) == "after" and it[2] == 0 and tag(init) == "deref" and tag(init[1]) == "call" and init[1][1].startswith(UNWRAP):
                nx = it[1]
                if init[1][2] is nx and tag(nx) == "call" and nx[1].startswith(NEXT) and tag(nx[2]) == "call" and nx[2][1].startswith(REV) \
                        and tag(nx[2][2]) == "call" and nx[2][2][1].startswith(ITER):
                    sl = slice_of(nx[2][2][2])
                    if sl is not None and tag(clo) == "agg" and clo[1][0] == "closure" and len(clo[2]) == 1:
                        key = clo[1][1]
                        if key not in ok_closures:
                            ok_closures[key] = closure_is_horner_step(facts, key)
                        if ok_closures[key] and 0 <= sl[1] < sl[2] <= (array_len(sl[0]) or 0):
                            if stats is not None:
                                stats.append((sl[1], sl[2]))
                            return mk("horner", clo[2][0], mk("coeffs", sl[0], sl[1], sl[2]))
        return mk(*a)
    return rebuild(term, f, {})

def rewrite_tree(tree, facts, stats=None):
    return vg.map_tree(tree, lambda t: rewrite(t, facts, stats))

def coeff_words(coeffs):
    """[(hi_bits, lo_bits)] of a ("coeffs", carray, lo, hi) node"""
    carr, lo, hi = coeffs[1], coeffs[2], coeffs[3]
    w = F.words_from_hex(carr[2])
    return [(w[2 * i], w[2 * i + 1]) for i in range(lo, hi)]
