"""Rigorous rounding-error bounds for polynomial kernels evaluated in double-double arithmetic.

The evaluated expression is an op-level term (the reference form a rule has already shown to be the
code): TwoFloat x TwoFloat, TwoFloat +/- TwoFloat, TwoFloat + f64, exact constants, one variable.
Each operation returns  exact(op)(1 + d)  with |d| <= the relative bound of the algorithm it was shown
to conform to (Joldes-Muller-Popescu 2017: Alg. 12 product 5u^2, Alg. 9 product by an f64 2u^2,
Alg. 6 sum 3u^2 + 13u^3 -- relative to the exact sum, so cancellation is covered -- Alg. 4 sum with
an f64 2u^2; u = 2^-53; absent under/overflow).  Expanding the expression into monomials and counting
the (1 + d) factors each monomial passes through gives (Higham, Accuracy and Stability, ch. 5)

    |computed - p(x)|  <=  sum_k |c_k| |x|^k ((1 + e)^(n_k) - 1),      e = max d,

evaluated in exact rational arithmetic at the largest |x| of the interval.  No floating point is used."""
from fractions import Fraction
from .terms import tag
from . import oracle, facts as F

U = Fraction(1, 2 ** 53)
E_MUL_DD = 5 * U * U            # Alg. 12 (DWTimesDW3)
E_MUL_FP = 2 * U * U            # Alg. 9  (DWTimesFP3)
E_ADD_DD = 3 * U * U + 13 * U ** 3      # Alg. 6  (AccurateDWPlusDW)
E_ADD_FP = 2 * U * U            # Alg. 4  (DWPlusFP)
E_DIV_DD = 16 * U * U           # the long division: bound established by C05's rule R10e (11 u^2)
E_MAX = max(E_MUL_DD, E_MUL_FP, E_ADD_DD, E_ADD_FP)

class NotPolynomial(Exception):
    pass

def const_value(t):
    """exact rational value of a constant term (f64 literal, TwoFloat literal), else None"""
    if tag(t) == "const" and t[1] == "f64":
        return Fraction(oracle.f64_of(t[2]))
    if tag(t) == "agg" and t[1][0] == "adt" and t[1][1] == "TwoFloat" and len(t[2]) == 2 and all(tag(x) == "const" for x in t[2]):
        return Fraction(oracle.f64_of(t[2][0][2])) + Fraction(oracle.f64_of(t[2][1][2]))
    return None

def monomials(term, var, memo=None):
    """[(|coefficient|, power of var, number of rounded operations on the way)] of an op-level polynomial term"""
    if memo is None:
        memo = {}
    if term in memo:
        return memo[term]
    if term is var:
        r = [(Fraction(1), 1, 0)]
    else:
        c = const_value(term)
        if c is not None:
            r = [(abs(c), 0, 0)]
        elif tag(term) == "call" and term[1].startswith("op:") and len(term) == 4:
            op = term[1].split(":")[1]
            a = monomials(term[2], var, memo); b = monomials(term[3], var, memo)
            if op == "mul":
                acc = {}
                for ca, pa, na in a:
                    for cb, pb, nb in b:
                        k = (pa + pb, na + nb + 1)
                        acc[k] = acc.get(k, 0) + ca * cb
                r = [(c, p, n) for (p, n), c in acc.items()]
            elif op in ("add", "sub"):
                r = [(c, p, n + 1) for c, p, n in a + b]
            else:
                raise NotPolynomial("operator %s" % term[1])
        elif tag(term) == "call" and term[1].startswith("op:neg") and len(term) == 3:
            r = monomials(term[2], var, memo)
        else:
            raise NotPolynomial("term %s" % (term[1] if tag(term) == "call" else tag(term)))
    memo[term] = r
    return r

def eval_error(monos, X, e=E_MAX, min_power=0):
    """sum |c| X^(p - min_power) ((1+e)^n - 1): absolute rounding error bound on |x| <= X
    (divided by |x|^min_power when every monomial has at least that power: a bound relative to |x|^min_power)"""
    tot = Fraction(0)
    for c, p, n in monos:
        if p < min_power:
            raise NotPolynomial("monomial of power %d below %d" % (p, min_power))
        tot += c * X ** (p - min_power) * ((1 + e) ** n - 1)
    return tot

def abs_poly(monos, X):
    return sum(c * X ** p for c, p, n in monos)

def log2f(x):
    import math
    x = Fraction(x)
    if x <= 0:
        return float("-inf")
    return math.log2(x.numerator) - math.log2(x.denominator)
