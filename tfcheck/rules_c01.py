"""C01: every TwoFloat comes into being at a validity-establishing or validity-preserving
constructor form (inductive constructor discipline)."""
import math, re
from . import vg, helpers as H, facts as F, oracle, refs
from .helpers import P, TF
from .terms import mk, tag, all_nodes, Node
from .rules_arith import find_by_shape

ROUNDERS = ("libm::ceil", "libm::floor", "libm::round", "libm::trunc")

def is_tf_agg(n):
    return tag(n) == "agg" and n[1][0] == "adt" and n[1][1] == TF and len(n[2]) == 2

def cval(t):
    return oracle.f64_of(t[2]) if tag(t) == "const" and t[1] == "f64" else None

def aggs_with_paths(tree):
    """yield (agg node, path conditions) for every TwoFloat aggregate in conditions and leaves"""
    seen = set()
    def visit(term, path):
        for n in all_nodes(term):
            if is_tf_agg(n) and (n, path) not in seen:
                seen.add((n, path))
                yield n, path
    def walk(t, path):
        if t[0] == "if":
            yield from visit(t[1], path)
            yield from walk(t[2], path + ((t[1], True),))
            yield from walk(t[3], path + ((t[1], False),))
        elif t[0] == "switch":
            yield from visit(t[1], path)
            for v, x in t[2]:
                yield from walk(x, path + ((t[1], v),))
            yield from walk(t[3], path + ((t[1], "other"),))
        elif t[0] == "leaf":
            yield from visit(t[1], path)
            for i, v in t[2]:
                yield from visit(v, path)
        elif t[0] == "backedge":
            for l, v in t[3]:
                if v is not None:
                    yield from visit(v, path)
    yield from walk(tree, ())

def classify(agg, path, body, eft_bodies):
    hi, lo = agg[2]
    ch, cl = cval(hi), cval(lo)
    if body.ident() in eft_bodies:
        return "k1", "result of error-free transformation %s" % eft_bodies[body.ident()]
    if ch is not None and cl is not None:
        if math.isnan(ch) or math.isinf(ch):
            return "k3", "explicit non-finite marker (hi = %r)" % ch
        if oracle.valid(ch, cl):
            return "k3", "constant pair valid in exact rationals"
        return None, "constant pair (%r, %r) overlaps" % (ch, cl)
    if cl is not None and cl == 0.0:
        return "k2", "low word is the literal %r" % cl
    # k3t the entry at one index of two parallel constant word tables, every pair of which is valid
    if tag(hi) == "index" and tag(lo) == "index" and hi[2] is lo[2] and tag(hi[1]) == "carray" and tag(lo[1]) == "carray":
        ma = re.match(r"^\[f64; (\d+)\]$", hi[1][1]); mb = re.match(r"^\[f64; (\d+)\]$", lo[1][1])
        if ma and mb and ma.group(1) == mb.group(1):
            wa = F.words_from_hex(hi[1][2]); wb = F.words_from_hex(lo[1][2])
            bad = [j for j, (x, y) in enumerate(zip(wa, wb)) if not (math.isfinite(oracle.f64_of(x)) and oracle.valid(oracle.f64_of(x), oracle.f64_of(y)))]
            if len(wa) == len(wb) == int(ma.group(1)) and not bad:
                return "k3", "entry i of two parallel constant word tables; all %d pairs are valid in exact rationals" % len(wa)
            return None, "parallel word tables whose pair(s) %s overlap" % bad[:4]
    # k4 word-wise negation of one value
    if tag(hi) == "f" and hi[1] == "neg" and tag(lo) == "f" and lo[1] == "neg":
        a, b = hi[2], lo[2]
        if tag(a) == "field" and tag(b) == "field" and a[1] is b[1] and a[2] == 0 and b[2] == 1:
            return "k4", "word-wise negation of one TwoFloat"
    # k5 dominated by the true edge of no_overlap(hi, lo)
    for c, v in path:
        if tag(c) == "call" and c[1] == "fn:no_overlap" and len(c) == 4 and c[2] is hi and c[3] is lo and v is True:
            return "k5", "dominated by no_overlap(hi, lo) == true"
    # k6 integer low word kept, high word rounded
    if tag(hi) == "call" and hi[1] in ROUNDERS and len(hi) == 3 and tag(hi[2]) == "field" and tag(lo) == "field" and hi[2][1] is lo[1] and hi[2][2] == 0 and lo[2] == 1:
        for c, v in path:
            if tag(c) == "cmp" and ((v is True and c[1] == "eq") or (v is False and c[1] == "ne")):
                x, z = c[3], c[4]
                if cval(z) == 0.0 and tag(x) == "field" and x[2] == 0 and tag(x[1]) == "call" and x[1][1] == "libm::modf" and x[1][2] is lo:
                    return "k6", "hi rounded by %s while modf(lo).0 == 0 (lo is an integer: lo = 0 or hi already integral)" % hi[1]
    # (a pair of independently scaled words is NOT accepted: the low word may round when it becomes
    #  subnormal - that was defect D8 in exp2; such pairs must go through Fast2Sum)
    return None, "hi = %s, lo = %s" % (vg.show(hi)[:120], vg.show(lo)[:120])

def raw_sites(b):
    out = []
    for mir in [b.mir] + list(b.promoted):
        for blk in mir["blocks"]:
            for s in blk["s"]:
                rv = s.get("rv", {})
                if "agg" in rv and isinstance(rv["agg"], dict) and F.norm_path(rv["agg"].get("adt", "")) == TF:
                    out.append(s["sp"])
    return out

def check_C01(ctx, rep):
    cfgs = ["A"] + (["B"] if ctx.tier == "thorough" else [])
    for cfg in cfgs:
        f = ctx.facts(cfg)
        check_cfg(ctx, rep, f, cfg)
    check_witness(rep)

def check_witness(rep):
    """R3w: compile_fail witnesses (and their compiling twins) from an external crate"""
    import os, re, shutil, subprocess, tempfile
    from . import extract
    wdir = os.path.join(extract.VERIF, "witness")
    tgt = tempfile.mkdtemp(prefix="tfwitness-target.")
    try:
        env = dict(os.environ, CARGO_NET_OFFLINE="true", CARGO_TARGET_DIR=tgt)
        p = subprocess.run(["cargo", "+nightly", "test", "--doc", "--offline"], cwd=wdir, env=env, stdout=subprocess.PIPE, stderr=subprocess.STDOUT, text=True)
        out = p.stdout
    finally:
        shutil.rmtree(tgt, ignore_errors=True)
    cf_ok = len(re.findall(r"- compile fail \.\.\. ok", out))
    tw_ok = len(re.findall(r"- compile \.\.\. ok", out))
    failed = re.findall(r"^test (.*) \.\.\. FAILED", out, re.M)
    if "could not compile `twofloat`" in out:
        rep.note("witness crate: twofloat itself does not build; reported by the build rule")
        return
    rep.check(p.returncode == 0 and not failed and cf_ok >= 5 and tw_ok >= 5, "R3w", "external crate cannot build / read / overwrite TwoFloat words", "witness",
              "compile-fail witnesses: %d of 5 rejected with the expected error code, %d of 5 twins compile, failed: %s" % (cf_ok, tw_ok, failed or out[-400:]),
              detail={"compile_fail_ok": cf_ok, "twins_ok": tw_ok}, nontrivial=True)

def check_cfg(ctx, rep, f, cfg):
    sfx = "" if cfg == "A" else " [cfg B]"
    eft_bodies = {}
    for nm, fn in (("Fast2Sum", refs.FTS), ("2Sum", refs.TS), ("2Sub", refs.TSn), ("2Prod", refs.TP)):
        for b in find_by_shape(f, 2, fn):
            eft_bodies[b.ident()] = nm
    counts = {}
    total_sites = 0
    pol0 = vg.Policy(f, "none")
    # private helpers that build no TwoFloat (classification functions returning a bool / integer / field-less enum, word
    # helpers returning f64s) are read in the context of their callers, so that a test moved into a helper still dominates the site
    helpers = set()
    for b in f.live:
        if not b.reachable and b.kind != "Closure" and b.trait is None and not raw_sites(b) and b.ident() != "fn:no_overlap" \
                and "TwoFloat" not in b.output and not pol0.has_loop_or_recursion(b):
            helpers.add(b.ident())
    rep.analysed["classification_helpers" + sfx] = sorted(helpers)
    # keys of every function some run-time body calls
    called = set()
    callers = {}
    for b in f.live:
        for mir in [b.mir] + list(b.promoted):
            for blk in mir["blocks"]:
                t = blk["t"]
                if t["k"] == "call" and "f" in t:
                    r = t["f"].get("res") or {}
                    if r.get("key"):
                        called.add(r["key"])
                        callers.setdefault(r["key"], []).append(b)
    # a closure that builds a TwoFloat is read where it runs: its parent is evaluated with closures and core's Option / bool
    # plumbing (`cond.then(|| TwoFloat { .. })`) read through, so that the parent's tests dominate the closure's aggregate
    closures_with_sites = [b for b in f.live if b.kind == "Closure" and raw_sites(b)]
    extra_parents = []
    for c in closures_with_sites:
        par = [p_ for p_ in f.live if p_.kind != "Closure" and c.key.startswith(p_.key + "::")]
        par.sort(key=lambda p_: -len(p_.key))
        if par and not raw_sites(par[0]) and par[0] not in extra_parents:
            extra_parents.append(par[0])
    # a private generic helper that builds a TwoFloat from what a closure / fn-item parameter returns is read in its callers too
    generic_builders = [b for b in f.live if b.kind != "Closure" and not b.reachable and b.trait is None and b.generics and raw_sites(b)
                        and any("Fn" in g for g in b.generics)]
    for g_ in generic_builders:
        for c_ in callers.get(g_.key, []):
            if c_.kind != "Closure" and not raw_sites(c_) and c_ not in extra_parents:
                extra_parents.append(c_)
    through = set(helpers) | {b.ident() for b in f.live if b.kind == "Closure"} | {pb.ident() for pb in f.plumbing.values()} | {g_.ident() for g_ in generic_builders}
    work = [b for b in f.live if b.kind != "Closure" and b not in generic_builders and (raw_sites(b) or b in extra_parents)] + closures_with_sites + generic_builders
    for b in work:
        sites = raw_sites(b)
        if b in generic_builders and b.ident() in vg.COVERED:
            rep.ok("R1", b.ident() + " (generic helper read in its callers)" + sfx, detail="classified where it is called", nontrivial=False)
            total_sites += len(sites)
            continue
        if b.kind == "Closure" and b.ident() in vg.COVERED:
            rep.ok("R1", b.ident() + " (closure read in its parent)" + sfx, detail="classified where it is called", nontrivial=False)
            total_sites += len(sites)
            continue
        total_sites += len(sites)
        if not b.reachable and b.trait is None and b.j.get("is_const_fn") and b.key not in called and b.kind != "Closure":
            # a private const fn that no run-time body calls exists only inside constant initialisers; what it builds
            # are the constants themselves, each of which R1c validates in exact rationals
            rep.ok("R1", b.ident() + " (compile-time-only helper)" + sfx, detail="private const fn without run-time callers: its results are the constants checked by R1c", nontrivial=False)
            continue
        if not b.reachable and b.trait is None and pol0.is_accessor(b):
            # a private function that only packages its arguments is inlined into every caller, where
            # the aggregate is classified in context; it cannot be called from outside the crate
            rep.ok("R1", b.ident() + " (private packaging helper)" + sfx, detail="classified at its call sites", nontrivial=False)
            continue
        try:
            try:
                t = H.tree_of(f, b, "none", inline_extra=through)
            except vg.Unsupported:
                # bodies with loops (powi): over-approximate the loop, the aggregate sites stay visible
                ex = vg.Exec(f, vg.Policy(f, "none"), loops="havoc")
                t = ex.run_body(b)
        except vg.Unsupported as u:
            rep.fail("R1", b.ident() + sfx, "unanalysable-constructor:" + b.ident(),
                     "%s builds a TwoFloat by hand and cannot be analysed (%s)" % (b.ident(), u), where=H.where(b))
            continue
        found = list(aggs_with_paths(t))
        # constants written as aggregates are folded by the evaluator; every raw site must be explained
        n_ok = 0
        private_b = (not b.reachable) and b.trait is None
        if private_b and any(classify(agg, path, b, eft_bodies)[0] is None for agg, path in found):
            # a private helper whose pair depends on what it is given (two word tables zipped, a closure's result): its callers
            # say what that is - read them with the helper (and its closures) in place
            owner = b
            if b.kind == "Closure":
                par_ = [p_ for p_ in f.live if p_.kind != "Closure" and b.key.startswith(p_.key + "::")]
                par_.sort(key=lambda p_: -len(p_.key))
                owner = par_[0] if par_ else b
            cs_ = [c_ for c_ in callers.get(owner.key, []) if c_.kind != "Closure" and c_ is not owner]
            if cs_ and (not owner.reachable) and owner.trait is None:
                all_ok = True; n_ctx = 0
                for c_ in cs_:
                    inf_ = {}
                    try:
                        tc = H.tree_of(f, c_, "none", inline_extra=through | {owner.ident()}, info=inf_)
                    except vg.Unsupported:
                        all_ok = False; break
                    if b.ident() not in inf_.get("covered", ()) and owner.ident() not in inf_.get("covered", ()):
                        all_ok = False; break       # the helper was not read in this caller: nothing is established
                    for agg2, path2 in aggs_with_paths(tc):
                        n_ctx += 1
                        if classify(agg2, path2, c_, eft_bodies)[0] is None:
                            all_ok = False
                if all_ok and n_ctx:
                    rep.ok("R1", b.ident() + " (read in its %d caller(s))" % len(cs_) + sfx, detail="every pair it builds there is classified (%d aggregates)" % n_ctx, nontrivial=True)
                    continue
        for agg, path in found:
            k, why = classify(agg, path, b, eft_bodies)
            inst = "%s: {%s, %s}%s" % (b.ident(), vg.show(agg[2][0])[:60], vg.show(agg[2][1])[:60], sfx)
            if k is None:
                rep.fail("R1", inst, "unclassified-constructor:" + b.ident(),
                         "%s builds TwoFloat { hi, lo } outside the validity-establishing forms: %s" % (b.ident(), why), where=H.where(b),
                         data={"hi": agg[2][0], "lo": agg[2][1], "path": [(c, v) for c, v in path]})
            else:
                counts[k] = counts.get(k, 0) + 1
                n_ok += 1
                rep.ok("R1", inst, detail="%s: %s" % (k, why), nontrivial=(k not in ("k2",)))
        if not found and sites:
            rep.fail("R1", b.ident() + sfx, "lost-site:" + b.ident(), "aggregate sites of %s were not reached by the evaluator" % b.ident(), where=H.where(b))
    rep.analysed["sites" + sfx] = total_sites
    rep.analysed["classes" + sfx] = counts
    # the four error-free primitives must exist (role-identified); the number of other sites is free to
    # change when constructors are re-spelled (From / from_f64 / struct literal)
    rep.check(set(eft_bodies.values()) >= {"Fast2Sum", "2Sum", "2Sub", "2Prod"}, "R1", "error-free primitives present" + sfx, "anchor-lost:eft-primitives",
              "the crate no longer contains conforming Fast2Sum / 2Sum / 2Sub / 2Prod primitives: %s (reason=anchor-lost)" % sorted(set(eft_bodies.values())), detail=sorted(eft_bodies), nontrivial=False)
    rep.floor("R1", total_sites, 8, "TwoFloat aggregate sites" + sfx)
    # constants: every TwoFloat / [TwoFloat; N] constant is valid or an explicit non-finite marker
    n_c = 0; n_w = 0
    NEWTYPES = {F.norm_path(sd["path"]): F.norm_ty(sd["fields"][0]["ty"]) for sd in f.structs if len(sd.get("fields", [])) == 1 and sd["fields"][0].get("ty")}
    for c in f.consts:
        if "::tests::" in c["key"] or "::test::" in c["key"]:
            continue
        ty = F.norm_ty(c["ty"])
        ty = NEWTYPES.get(ty, ty)       # a private newtype around a table holds the table's words
        if ty != TF and not ty.startswith("[TwoFloat;"):
            continue
        v = c.get("val") or {}
        if "hex" not in v:
            rep.fail("R1c", F.norm_path(c["path"]) + sfx, "const-unevaluated:" + F.norm_path(c["path"]), "constant %s could not be evaluated" % c["path"]); continue
        w = F.words_from_hex(v["hex"])
        bad = []
        for i in range(0, len(w), 2):
            hi, lo = oracle.f64_of(w[i]), oracle.f64_of(w[i + 1])
            n_w += 2
            if math.isnan(hi) or math.isinf(hi):
                continue
            if not oracle.valid(hi, lo):
                bad.append((i // 2, float.hex(hi), float.hex(lo)))
        n_c += 1
        rep.check(not bad, "R1c", F.norm_path(c["path"]) + sfx, "invalid-const:" + F.norm_path(c["path"]),
                  "constant %s has overlapping entries %s" % (c["path"], bad[:3]), where=c["span"], nontrivial=(len(w) > 2),
                  detail="%d pair(s) valid in exact rationals" % (len(w) // 2))
    rep.analysed["const_items" + sfx] = n_c; rep.analysed["const_words" + sfx] = n_w
    rep.floor("R1c", n_c, 35, "TwoFloat constants" + sfx)
    # R1b no field stores into a TwoFloat
    n_fs = 0
    for b in f.live:
        for blk in b.mir["blocks"]:
            for s in blk["s"]:
                if "lhs" in s and any(isinstance(e, dict) and "f" in e for e in s["lhs"]["p"]):
                    root = H.vg.strip_ref(F.norm_ty(b.mir["locals"][s["lhs"]["l"]]["ty"]))
                    if root == TF:
                        n_fs += 1
                        rep.fail("R1b", b.ident() + sfx, "field-store:" + b.ident(), "%s assigns a single word of a TwoFloat in place" % b.ident(), where=s["sp"])
    rep.check(True, "R1b", "no in-place word stores" + sfx, "x", "", detail="%d field stores into TwoFloat places" % n_fs, nontrivial=False)
    # R2 returned values of reachable functions
    n_r = 0
    LOCAL_IDENTS.clear(); LOCAL_IDENTS.update(b.ident() for b in f.live)
    for b in f.live:
        if b.kind == "Closure" or b.output not in (TF, "(TwoFloat, TwoFloat)", "core::option::Option<TwoFloat>", "core::result::Result<TwoFloat, TwoFloatError>"):
            continue
        try:
            t = H.tree_of(f, b, "none")
        except vg.Unsupported:
            continue
        n_r += 1
        badret = []
        CURRENT_PRIVATE[0] = (not b.reachable) and b.trait is None
        for path, leaf in vg.leaves(t):
            if leaf[0] != "leaf":
                continue
            for v in returned_tfs(leaf[1]):
                if not ok_source(v):
                    badret.append(v)
        rep.check(not badret, "R2", b.ident() + sfx, "return-source:" + b.ident(),
                  "%s returns a TwoFloat from an unclassified source: %s" % (b.ident(), "; ".join(vg.show(v)[:100] for v in badret[:2])), where=H.where(b),
                  nontrivial=False, detail="returns parameter / constant / classified aggregate / crate call")
    rep.floor("R2", n_r, 150, "functions returning TwoFloat" + sfx)
    # R1g the gate used by k5 is Definition 1.4 itself (shared with C07's R18)
    if cfg == "A":
        from . import rules_base, dectree as D
        tr, b = rules_base.get_tree(rep, f, "R1g", "fn:no_overlap")
        if tr is not None:
            rules_base.expect_equiv(rep, "R1g", "checked-construction gate is Definition 1.4", "gate-predicate", D.expand_bool_leaves(tr), [rules_base.no_overlap_ref(i) for i in ("i16", "i32", "i64", "isize")], b,
                                    "the predicate dominating k5 sites (and is_valid) equals the reference form of RN(a+b) == a")
    # R3 nothing outside the crate can build or mutate one
    for s in f.structs:
        if F.norm_path(s["path"]) == TF:
            pubf = [x["name"] for x in s["fields"] if x["pub"]]
            rep.check(not pubf, "R3", "TwoFloat fields not public" + sfx, "pub-field", "TwoFloat field(s) %s are public" % pubf, detail=[x["name"] for x in s["fields"]], nontrivial=False)
    attrs = " ".join(f.ast.get("crate_attrs", []))
    rep.check("forbid(unsafe_code)" in attrs.replace(" ", ""), "R3", "#![forbid(unsafe_code)]" + sfx, "unsafe-allowed", "the crate no longer forbids unsafe code", nontrivial=False)

def returned_tfs(v):
    if tag(v) == "agg" and not is_tf_agg(v):
        for x in v[2]:
            if x is not None:
                yield from returned_tfs(x)
    else:
        yield v

LOCAL_IDENTS = set()     # idents of the crate's bodies (filled per run)
CURRENT_PRIVATE = [False]   # the body whose returns are being classified cannot be called from outside the crate

FOREIGN_OK = ("core::iter::Iterator::fold", "core::option::Option::<T>::unwrap", "core::option::Option::<T>::map", "core::option::Option::<T>::map_or_else",
              "<core::iter::Rev<I> as core::iter::Iterator>::fold", "core::result::Result::<T, E>::map_err", "core::result::Result::<T, E>::ok")

def ok_source(v):
    t = tag(v)
    if t in ("param", "agg", "carray", "index", "deref", "unit", "after"):
        return True
    if t == "const":
        return True
    if t == "call":
        n = v[1]
        if n.startswith("op:") or n.startswith("TwoFloat::") or n.startswith("fn:") or n.startswith("<") or n in LOCAL_IDENTS:
            return True      # a function of this crate: its own returns are classified where it is defined
        if re.match(r"^core::ops::(function::)?Fn(Once|Mut)?::call(_once|_mut)?<", n):
            return True      # the value of a closure / fn-item parameter: code of this crate, read where it is passed
        if re.match(r"^core::ops::\w+::\w+<TwoFloat,", n) or re.match(r"^core::ops::(Add|Sub|Mul|Div|Rem|Neg)::\w+<", n):
            # an arithmetic operator yielding a TwoFloat, not resolved inside a private generic helper: by the orphan rule every
            # such impl is either one of the crate's (classified itself) or a downstream one on a downstream type, which can only
            # use the public constructors
            return True
        if re.match(r"^core::convert::Into::into<.*,TwoFloat>$", n) or re.match(r"^core::convert::From::from<TwoFloat,", n):
            # a conversion into TwoFloat not resolved inside a private generic helper: by the orphan rule every `From<X> for TwoFloat`
            # is one of the crate's impls (classified itself) or a downstream one for a downstream X, built with the public constructors
            return True
        if n.startswith("indirect:") and CURRENT_PRIVATE[0]:
            # a call through a fn pointer inside a private function: the pointer was made by code of this crate from one of its
            # functions, whose own returns are classified where they are defined
            return True
        if n.startswith("core::option::Option::<T>::") or n.startswith("core::result::Result::<T, E>::"):
            return True      # a combinator of core: it hands on what it was given or what a closure of this crate returns
        return any(n.startswith(x) for x in FOREIGN_OK)
    if t == "field":
        return True
    return False
