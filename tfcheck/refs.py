"""Reference forms (DESIGN Appendix A), written over the term algebra of vg.py.

Every function returns a pair (hi, lo) of f64 terms.  They are the algorithms the properties
name: Joldes-Muller-Popescu 2017 Alg. 1, 2, 3, 4, 6, 7, 9, 12, 15; qd's renormalisation."""
from .terms import mk
from .vg import f64c

def fadd(a, b): return mk("f", "add", a, b)
def fsub(a, b): return mk("f", "sub", a, b)
def fmul(a, b): return mk("f", "mul", a, b)
def fdiv(a, b): return mk("f", "div", a, b)
def fneg(a): return mk("f", "neg", a)
def ffma(a, b, c): return mk("f", "fma", a, b, c)

def FTS(a, b):                       # Alg. 1 Fast2Sum
    s = fadd(a, b); z = fsub(s, a)
    return s, fsub(b, z)

def TS(a, b):                        # Alg. 2 2Sum
    s = fadd(a, b); aa = fsub(s, b); bb = fsub(s, aa)
    da = fsub(a, aa); db = fsub(b, bb)
    return s, fadd(da, db)

def TSn(a, b):                       # Alg. 2 with negated right operand
    s = fsub(a, b); aa = fadd(s, b); bb = fsub(s, aa)
    da = fsub(a, aa); db = fadd(b, bb)
    return s, fsub(da, db)

def TP(a, b):                        # Alg. 3 2Prod (fma)
    p = fmul(a, b)
    return p, ffma(a, b, fneg(p))

def DIV1(a, b):                      # Alg. 15 with x.lo = 0
    th = fdiv(a, b); ph, pl = TP(th, b)
    dh = fsub(a, ph); d = fsub(dh, pl); tl = fdiv(d, b)
    return FTS(th, tl)

def R3(a, b, c):                     # three-term renormalisation
    uh, ul = FTS(a, b); vh, vl = FTS(c, uh)
    return FTS(vh, fadd(ul, vl))

def DW_PLUS_FP(xh, xl, y):           # Alg. 4
    sh, sl = TS(xh, y); v = fadd(xl, sl)
    return FTS(sh, v)

def DW_MINUS_FP(xh, xl, y):
    sh, sl = TSn(xh, y); v = fadd(xl, sl)
    return FTS(sh, v)

def FP_MINUS_DW(y, xh, xl):
    sh, sl = TSn(y, xh); v = fsub(sl, xl)
    return FTS(sh, v)

def DW_PLUS_DW(xh, xl, yh, yl, sub=False):   # Alg. 6 AccurateDWPlusDW
    two = TSn if sub else TS
    sh, sl = two(xh, yh); th, tl = two(xl, yl)
    c = fadd(sl, th); vh, vl = FTS(sh, c); w = fadd(tl, vl)
    return FTS(vh, w)

def DW_TIMES_FP(xh, xl, y):          # Alg. 9 DWTimesFP3
    ch, cl1 = TP(xh, y); cl3 = ffma(xl, y, cl1)
    return FTS(ch, cl3)

def DW_TIMES_FP1(xh, xl, y):         # Alg. 7 DWTimesFP1 (1.5u^2 + 4u^3: inside the 2u^2 the property allows)
    ch, cl1 = TP(xh, y); cl2 = fmul(xl, y)
    th, tl1 = FTS(ch, cl2); tl2 = fadd(tl1, cl1)
    return FTS(th, tl2)

def DW_TIMES_DW(xh, xl, yh, yl):     # Alg. 12 DWTimesDW3
    ch, cl1 = TP(xh, yh); tl0 = fmul(xl, yl); tl1 = ffma(xh, yl, tl0)
    cl2 = ffma(xl, yh, tl1); cl3 = fadd(cl1, cl2)
    return FTS(ch, cl3)

def DW_DIV_FP(xh, xl, y):            # Alg. 15 DWDivFP3
    th = fdiv(xh, y); ph, pl = TP(th, y); dh = fsub(xh, ph); dt = fsub(dh, pl)
    d = fadd(dt, xl); tl = fdiv(d, y)
    return FTS(th, tl)
