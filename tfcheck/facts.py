"""Loading, indexing and pretty-printing of tfmir fact files."""
import json, re, struct

def norm_ty(s):
    """Canonical type string: lifetimes dropped, std:: -> core::."""
    s = re.sub(r"'[A-Za-z_][A-Za-z0-9_]*\s*", "", s)
    s = re.sub(r"'\{erased\}\s*", "", s)
    s = s.replace("std::", "core::").replace("alloc::", "core::")
    return _LOCAL_TY.sub(r"\1", s)

# the crate's two public types are named without the module they happen to be defined in
_LOCAL_TY = re.compile(r"\b(?:[a-z_][a-z0-9_]*::)+(TwoFloatError|TwoFloat)\b")

def norm_path(s):
    s = re.sub(r"'[A-Za-z_][A-Za-z0-9_]*\s*", "", s)
    return _LOCAL_TY.sub(r"\1", s.replace("std::", "core::"))

class Body:
    def __init__(self, j):
        self.j = j
        self.path = norm_path(j["path"])
        self.key = j["key"]
        self.kind = j["kind"]
        self.ctx = j.get("ctx", {})
        self.mir = j["mir"]
        self.promoted = j.get("promoted", [])
        self.span = j["span"]
        self.is_test = j.get("is_test", False) or "::tests::" in j["key"] or "::test::" in j["key"]
        self.name = self.ctx.get("name")
        self.self_ty = norm_ty(self.ctx["self_ty"]) if "self_ty" in self.ctx else None
        self.trait = norm_path(self.ctx["trait"]) if "trait" in self.ctx else None
        self.trait_args = [norm_ty(a) for a in self.ctx.get("trait_args", [])]
        self.pub = j.get("pub", False)
        self.reachable = j.get("reachable", False)
        self.inputs = [norm_ty(t) for t in j.get("inputs", [])]
        self.output = norm_ty(j["output"]) if "output" in j else None
        self.generics = list(j.get("generics", []))

    def ident(self):
        """Refactoring-stable identity: trait impls by (trait, args, self, name); inherent
        methods by (self type, name); free functions by name."""
        if self.kind == "Closure":
            return "closure:" + self.key
        if self.trait:
            if self.trait_args:
                return "<%s as %s<%s>>::%s" % (self.self_ty, self.trait, ",".join(self.trait_args), self.name)
            return "<%s as %s>::%s" % (self.self_ty, self.trait, self.name)
        if self.self_ty:
            return "%s::%s" % (self.self_ty, self.name)
        return "fn:" + self.name

    def __repr__(self):
        return "Body(%s)" % self.ident()

class PlumbingBody:
    """generic MIR of a pure plumbing function of core (Option / Result combinators, `?`), exported by the driver"""
    def __init__(self, key, j):
        self.j = j; self.key = key
        self.path = norm_path(j["def"])
        self.kind = "Plumbing"
        self.mir = j["mir"]; self.promoted = []
        self.generics = list(j.get("generics", []))
        self.reachable = False; self.pub = False; self.is_test = False
        self.trait = None; self.trait_args = []; self.self_ty = None; self.name = self.path.split("::")[-1]
        self.inputs = []; self.output = None; self.span = ""; self.ctx = {}
    def ident(self):
        return "core:" + self.path
    def __repr__(self):
        return "PlumbingBody(%s)" % self.path

SUPPORTED_STMT = ("lhs", "intrinsic")
def plumbing_supported(mir):
    """only bodies made of constructs the evaluator models are read through (anything else stays an opaque call)"""
    for blk in mir["blocks"]:
        if blk.get("cleanup"):
            continue
        for s_ in blk["s"]:
            if not any(k in s_ for k in SUPPORTED_STMT):
                return False
            rv = s_.get("rv")
            if rv is not None and not any(k in rv for k in ("use", "ref", "agg", "discr", "bin", "un", "cast")):
                return False
        if blk["t"]["k"] not in ("goto", "drop", "ret", "call", "switch", "unreachable", "assert"):
            return False
    return True

class Facts:
    def __init__(self, path):
        self.raw = json.load(open(path))
        self.features = self.raw["features"]
        self.bodies = [Body(b) for b in self.raw["bodies"]]
        self.by_key = {b.key: b for b in self.bodies}
        self.live = [b for b in self.bodies if not b.is_test]
        self.by_ident = {}
        for b in self.live:
            self.by_ident.setdefault(b.ident(), []).append(b)
        self.consts = self.raw["consts"]
        self.const_by_key = {c["key"]: c for c in self.consts}
        self.foreign = self.raw["foreign"]
        self.plumbing = {}
        for k, v in self.foreign.items():
            if k.startswith("def:") and "mir" in v and plumbing_supported(v["mir"]):
                pb = PlumbingBody(k, v)
                self.plumbing[pb.path] = pb
        # closures by the source position their type names
        self.closure_at = {}
        for b in self.bodies:
            if b.kind == "Closure":
                self.closure_at["KEY:" + b.key.replace("{", "(").replace("}", ")")] = b
        self.impls = self.raw["impls"]
        self.structs = self.raw["structs"]
        self.ast = self.raw.get("ast") or {}
        self.enums = {norm_path(e["path"]): [(v["name"], int(v["discr"])) for v in e["variants"]] for e in self.raw.get("enums", [])}

    def get(self, ident):
        l = self.by_ident.get(ident, [])
        return l[0] if len(l) == 1 else None

    def find(self, pred):
        return [b for b in self.live if pred(b)]

def f64_from_bits(bits):
    return struct.unpack("<d", struct.pack("<Q", bits))[0]

def words_from_hex(h):
    """little-endian u64 words of a byte dump"""
    b = bytes.fromhex(h)
    return [int.from_bytes(b[i:i + 8], "little") for i in range(0, len(b), 8)]

# ---------------------------------------------------------------- pretty printer

def p_place(p):
    s = "_%d" % p["l"]
    for e in p["p"]:
        if e == "deref":
            s = "(*%s)" % s
        elif isinstance(e, dict) and "f" in e:
            s += ".%d" % e["f"]
        elif isinstance(e, dict) and "idx" in e:
            s += "[_%d]" % e["idx"]
        elif isinstance(e, dict) and "cidx" in e:
            s += "[%s%d]" % ("-" if e.get("from_end") else "", e["cidx"])
        elif isinstance(e, dict) and "downcast" in e:
            s = "(%s as %s)" % (s, e.get("name"))
        else:
            s += ".?%s" % (e,)
    return s

def p_const(c):
    if "fn" in c:
        f = c["fn"]
        r = f.get("res")
        return "fn(%s)" % ((r or f)["def"])
    v = c.get("val") or {}
    if "item" in c:
        if "promoted" in c:
            return "promoted[%d]" % c["promoted"]
        return "const(%s)" % c["item"]
    if v.get("k") == "scalar":
        bits = int(v["bits"], 16)
        if c["ty"] == "f64":
            return "%rf64" % f64_from_bits(bits)
        if c["ty"] == "bool":
            return "true" if bits else "false"
        return "%d_%s" % (bits, c["ty"])
    if v.get("k") == "slice" and "str" in v:
        return repr(v["str"])
    if v.get("k") == "zst":
        return "zst:%s" % c["ty"]
    return "const<%s>" % c["ty"]

def p_op(o):
    if "copy" in o:
        return p_place(o["copy"])
    if "move" in o:
        return "move " + p_place(o["move"])
    if "const" in o:
        return p_const(o["const"])
    return "?op"

def p_rv(rv):
    if "use" in rv:
        return p_op(rv["use"])
    if "ref" in rv:
        return "&%s%s" % ("mut " if rv.get("mut") else "", p_place(rv["ref"]))
    if "bin" in rv:
        return "%s(%s, %s)" % (rv["bin"], p_op(rv["a"]), p_op(rv["b"]))
    if "un" in rv:
        return "%s(%s)" % (rv["un"], p_op(rv["a"]))
    if "cast" in rv:
        return "%s as %s [%s]" % (p_op(rv["a"]), rv["ty"], rv["cast"])
    if "agg" in rv:
        k = rv["agg"]
        if isinstance(k, dict):
            k = k.get("adt") or k.get("closure") or ("array" if "array" in k else str(k))
        return "%s{%s}" % (k, ", ".join(p_op(o) for o in rv["ops"]))
    if "discr" in rv:
        return "discr(%s)" % p_place(rv["discr"])
    return json.dumps(rv)[:80]

def p_body(mir, out=None):
    lines = []
    for i, l in enumerate(mir["locals"]):
        lines.append("  let _%d: %s%s" % (i, l["ty"], ("  // " + l["name"]) if "name" in l else ""))
    for bi, b in enumerate(mir["blocks"]):
        lines.append("bb%d%s:" % (bi, " (cleanup)" if b["cleanup"] else ""))
        for s in b["s"]:
            if "lhs" in s:
                lines.append("    %s = %s" % (p_place(s["lhs"]), p_rv(s["rv"])))
            else:
                lines.append("    %s" % json.dumps(s)[:100])
        t = b["t"]
        k = t["k"]
        if k == "goto":
            lines.append("    goto bb%d" % t["t"])
        elif k == "switch":
            lines.append("    switch %s [%s] else bb%d" % (p_op(t["d"]), ", ".join("%s->bb%d" % (v, g) for v, g in zip(t["vals"], t["targets"])), t["otherwise"]))
        elif k == "call":
            if "f" in t:
                f = t["f"]; r = f.get("res") or f
                fn = r["def"] + "<" + ",".join(r.get("args", [])) + ">"
            else:
                fn = "(" + p_op(t["fop"]) + ")"
            lines.append("    %s = %s(%s) -> %s" % (p_place(t["dest"]), fn, ", ".join(p_op(a) for a in t["args"]), "bb%d" % t["t"] if t["t"] is not None else "!"))
        elif k == "assert":
            lines.append("    assert(%s == %s, %s) -> bb%d" % (p_op(t["cond"]), t["expected"], t["msg"]["k"], t["t"]))
        elif k == "drop":
            lines.append("    drop(%s) -> bb%d" % (p_place(t["place"]), t["t"]))
        else:
            lines.append("    " + k)
    return "\n".join(lines)

if __name__ == "__main__":
    import sys
    f = Facts(sys.argv[1])
    pat = sys.argv[2]
    for b in f.bodies:
        if pat in b.path or pat in b.ident() or pat in b.key:
            print("=====", b.ident(), "|", b.key, "|", b.span)
            print(p_body(b.mir))
            for i, p in enumerate(b.promoted):
                print("--- promoted[%d]" % i)
                print(p_body(p))
