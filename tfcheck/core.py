"""Check driver: obligations, floors, known findings, evidence, replay files."""
import json, os, re, sys, time, traceback
from . import extract
from .facts import Facts

VERIF = extract.VERIF
KNOWN_FILE = os.path.join(VERIF, "known_findings.txt")
# the self-test runs checks against mutated scratch copies; their evidence / reports go elsewhere
OUT = os.environ.get("TF_OUT", VERIF)

TRUSTED_BASE = [
    "IEEE-754 binary64 round-to-nearest-even semantics of MIR Add/Sub/Mul/Div/Neg on f64 (SSE2/NEON, no x87 double rounding)",
    "f64::mul_add and libm::fma are correctly rounded; libm's sqrt/cbrt/floor/ceil/round/trunc/modf/fabs/copysign/exp2/log* are total with documented special values",
    "rustc's MIR construction, trait resolution and const evaluation (nightly 1.97)",
    "published theorems: 2Sum/Fast2Sum/2Prod error-free; Joldes-Muller-Popescu 2017 Alg. 4, 6, 9, 12, 15 bounds (Muller-Rideau 2022 formalisation)",
    "the reviewed reference forms in tfcheck/refs.py and the frozen discharge arguments in tfcheck/panics_table.py",
    "mpmath arbitrary-precision evaluation (cross-checked at two precisions), Python fractions",
]

class Known:
    def __init__(self):
        self.known = {}   # (prop, key) -> text
        self.fixed = []
        if os.path.exists(KNOWN_FILE):
            for line in open(KNOWN_FILE):
                line = line.strip()
                if not line or line.startswith("#"):
                    continue
                m = re.match(r"^known:\s+property=(\S+)\s+key=(\S+)\s*(.*)$", line)
                if m:
                    self.known[(m.group(1), m.group(2))] = m.group(3)
                    continue
                m = re.match(r"^fixed:\s+property=(\S+)\s+(.*)$", line)
                if m:
                    self.fixed.append((m.group(1), m.group(2)))

class Report:
    def __init__(self, prop, tier, seed):
        self.prop = prop; self.tier = tier; self.seed = seed
        self.obl = []          # dicts
        self.analysed = {}     # free-form coverage info
        self.floors = []
        self.notes = []
        self.t0 = time.time()

    def ok(self, rule, instance, detail=None, nontrivial=True, algebra=None, sample=None):
        self.obl.append({"rule": rule, "instance": instance, "status": "ok", "detail": detail,
                         "nontrivial": nontrivial, "algebra": algebra, "sample": sample})

    def fail(self, rule, instance, key, message, data=None, where=None):
        self.obl.append({"rule": rule, "instance": instance, "status": "violation", "key": "%s:%s" % (rule, key),
                         "message": message, "data": data, "where": where, "nontrivial": True})

    def check(self, cond, rule, instance, key, message, data=None, where=None, **kw):
        if cond:
            self.ok(rule, instance, **kw)
        else:
            self.fail(rule, instance, key, message, data, where)
        return cond

    def floor(self, rule, count, minimum, what):
        """fail closed when a rule matched fewer instances than were confirmed by hand"""
        self.floors.append({"rule": rule, "matched": count, "floor": minimum, "what": what})
        if count < minimum:
            self.fail(rule, "floor", "anchor-lost:%s" % what.replace(" ", "-"),
                      "rule %s matched %d instances of '%s', fewer than the %d confirmed on the baseline (reason=anchor-lost)" % (rule, count, what, minimum))

    def note(self, s):
        self.notes.append(s)

def load_facts(cfg):
    return Facts(extract.facts_path(cfg))

class Ctx:
    def __init__(self, tier, seed):
        self.tier = tier; self.seed = seed
        self._facts = {}
    def facts(self, cfg="A"):
        if cfg not in self._facts:
            self._facts[cfg] = load_facts(cfg)
        return self._facts[cfg]

def jsonable(x, depth=0):
    from .terms import Node
    from . import vg
    if isinstance(x, Node):
        s = vg.show(x)
        return s if len(s) < 2000 else s[:2000] + "…"
    if isinstance(x, (list, tuple)):
        return [jsonable(y, depth + 1) for y in x]
    if isinstance(x, dict):
        return {str(k): jsonable(v, depth + 1) for k, v in x.items()}
    if isinstance(x, (str, int, float, bool)) or x is None:
        return x
    return repr(x)

# The function families are compositions of the double-double operators: their accuracy claims presuppose that +, -, *, / (every
# operand pairing) are the algorithms C03 / C04 / C05 establish, and validity of every operator result (C01) rests on the same
# conformance.  A defect in an operator body breaks these properties as well, so their checks carry those form rules as a
# dependency obligation (rule RO).  Likewise a family that is built on another family's functions (log2 on exp2, ln on exp,
# powf on ln and exp, the hyperbolics on exp / ln / sqrt, asin on sqrt) carries that family's rules (rule RF).
OPERATOR_DEPENDENT = ("C01", "C12", "C13", "C14", "C15", "C16", "C17", "C18", "C19")
FAMILY_DEPENDS = {"C14": ("C15",), "C15": ("C14",), "C17": ("C13",), "C18": ("C13", "C14", "C15")}

def operator_dependencies(ctx, rep, prop):
    from . import rules_arith, registry
    deps = []
    if prop in OPERATOR_DEPENDENT:
        deps += [("RO", "C03", rules_arith.check_C03), ("RO", "C04", rules_arith.check_C04), ("RO", "C05", rules_arith.check_C05)]
    for d in FAMILY_DEPENDS.get(prop, ()):
        deps.append(("RF", d, registry.PROPS[d][0]))
    for rule, pid, fn in deps:
        sub = Report(pid, rep.tier, rep.seed)
        fn(ctx, sub)
        n_ok = 0
        for o in sub.obl:
            if o["status"] == "violation":
                if (pid, o["key"]) in Known().known:
                    continue      # a recorded finding of the other property (reported there as KNOWN-FINDING)
                rep.fail(rule, "%s %s %s" % (pid, o["rule"], o["instance"]), "%s:%s" % (pid, o["key"]),
                         "%s this property is composed of does not conform (%s, rule %s): %s" % ("an operator" if rule == "RO" else "a function", pid, o["rule"], o["message"]), o.get("data"), o.get("where"))
            else:
                n_ok += 1
        rep.ok(rule, "%s of %s" % ("operator forms" if rule == "RO" else "function forms", pid),
               detail="%d obligations of %s hold on the %s this property is composed of" % (n_ok, pid, "operators" if rule == "RO" else "functions"), nontrivial=False)

def run_property(prop, fn, level, tier, seed, checker_cmd, explanation, assumptions, rule_text):
    """Runs fn(ctx, rep); prints VIOLATION / KNOWN-FINDING lines; writes evidence; returns exit code."""
    rep = Report(prop, tier, seed)
    ctx = Ctx(tier, seed)
    known = Known()
    try:
        fn(ctx, rep)
        operator_dependencies(ctx, rep, prop)
        if prop != "C11":
            from . import rules_c11, vg
            rules_c11.transfer(ctx, rep, set(vg.COVERED), prop)
            from . import rules_total
            rules_total.assumed_assertions(ctx, rep, set(vg.COVERED), prop)
    except extract.BuildError as e:
        first = ""
        for line in e.log.splitlines():
            if line.startswith("error"):
                first = line; break
        rep.fail("build", "cfg-" + e.cfg, "crate-does-not-build:%s" % e.cfg,
                 "reason=crate-does-not-build configuration %s: %s" % (e.cfg, first), {"log": e.log[-4000:]})
    except Exception as e:
        rep.fail("internal", "checker", "internal-error", "checker raised %r (fail closed)" % (e,), {"trace": traceback.format_exc()})
    selftest = None
    if tier == "thorough" and not os.environ.get("TF_OUT"):
        try:
            from . import selftest as st
            selftest = st.run(prop)
            for r in selftest:
                if r["status"] == "MISS":
                    sys.stderr.write("SELFTEST-MISS property=%s mutant=%s (%s)\n" % (prop, r["id"], r.get("note")))
        except Exception as e:
            selftest = [{"id": "selftest", "status": "error", "why": repr(e)}]
    viol = [o for o in rep.obl if o["status"] == "violation"]
    exit_code = 0
    os.makedirs(os.path.join(OUT, "reports"), exist_ok=True)
    n_known = 0
    for o in viol:
        k = (prop, o["key"])
        if k in known.known:
            o["status"] = "known"
            n_known += 1
            print("KNOWN-FINDING: property=%s key=%s %s" % (prop, o["key"], known.known[k] or o["message"]))
            continue
        import hashlib
        safe = re.sub(r"[^A-Za-z0-9_.-]+", "_", o["key"])[:100] + "-" + hashlib.sha1(o["key"].encode()).hexdigest()[:8]
        path = os.path.join(OUT, "reports", "%s-%s.json" % (prop, safe))
        with open(path, "w") as fh:
            json.dump(jsonable({"property": prop, "rule": o["rule"], "instance": o["instance"], "key": o["key"],
                                "message": o["message"], "where": o.get("where"), "data": o.get("data")}), fh, indent=1)
        print("VIOLATION property=%s replay=%s" % (prop, path))
        print("  rule=%s instance=%s%s\n  %s" % (o["rule"], o["instance"], (" at " + o["where"]) if o.get("where") else "", o["message"]))
        exit_code = 1
    n_viol = len([o for o in rep.obl if o["status"] == "violation"])
    oks = [o for o in rep.obl if o["status"] == "ok"]
    total = len(rep.obl)
    distinct_nt = len({(o["rule"], str(o["instance"])) for o in rep.obl if o.get("nontrivial")})
    samples = []
    seen_rules = {}
    for o in oks:
        c = seen_rules.get(o["rule"], 0)
        if c < 2:
            seen_rules[o["rule"]] = c + 1
            samples.append(jsonable({"rule": o["rule"], "instance": o["instance"], "detail": o.get("detail"),
                                     "algebra": o.get("algebra"), "sample": o.get("sample")}))
    per_rule = {}
    for o in rep.obl:
        r = per_rule.setdefault(o["rule"], {"instances": 0, "ok": 0, "violation": 0, "known": 0})
        r["instances"] += 1; r[o["status"]] += 1
    cov = {
        "evaluations": max(total, 1),
        "distinct_nontrivial": distinct_nt,
        "rule": rule_text,
        "samples": samples[:40] or ["(none)"],
        "obligations": total - n_known,
        "discharged": len(oks),
        "checker_cmd": checker_cmd,
        "trusted_base": TRUSTED_BASE,
        "explanation": explanation,
        "exhaustive": False,
        "per_rule": per_rule,
        "floors": rep.floors,
        "analysed": jsonable(rep.analysed),
        "notes": rep.notes,
        "known_findings_reported": n_known,
        "selftest": None if selftest is None else {
            "mutants": len([r for r in selftest if not str(r["id"]).startswith("twin:")]), "killed": len([r for r in selftest if r["status"].startswith("killed")]),
            "silent_twins": len([r for r in selftest if r["status"] == "silent"]),
            "missed": [r["id"] for r in selftest if r["status"] == "MISS"], "skipped": [r["id"] for r in selftest if r["status"] == "skipped"],
            "matrix": selftest},
        "tree": extract.tree_hash(),
        "repo": extract.REPO,
    }
    try:
        from . import vg as _vg
        cov["bodies_evaluated"] = len(_vg.COVERED)
        if os.environ.get("TF_COVERAGE"):
            with open(os.environ["TF_COVERAGE"], "a") as fh:
                for i in sorted(_vg.COVERED):
                    fh.write("%s\t%s\n" % (prop, i))
    except Exception:
        pass
    ev = {"property_id": prop, "tier": tier, "seed": seed, "level": level, "coverage": cov,
          "assumptions": assumptions, "wall_s": round(time.time() - rep.t0, 3), "violations": n_viol}
    os.makedirs(os.path.join(OUT, "evidence"), exist_ok=True)
    path = os.path.join(OUT, "evidence", "%s.json" % prop)
    tmp = path + ".tmp%d" % os.getpid()
    with open(tmp, "w") as fh:
        json.dump(ev, fh, indent=1)
    os.replace(tmp, path)
    print("%s tier=%s: %d obligations, %d ok, %d known, %d violations (%.1fs)" % (prop, tier, total, len(oks), n_known, n_viol, time.time() - rep.t0))
    return exit_code
