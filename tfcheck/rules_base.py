"""C06 (comparison / sign queries), C07 (validity predicate, checked construction),
C08 (rounding functions): decision trees compared semantically with reference tables."""
from . import vg, norm, helpers as H, facts as F, dectree as D
from .dectree import IF, RET, TRUE, FALSE
from .helpers import P, HI, LO, TF
from .terms import mk, tag, all_nodes
from .rules_c10 import subst
from .rules_arith import find_by_shape
from . import refs

def call(name, *a): return mk("call", name, *a)
def cmp(op, a, b, ty="f64"): return mk("cmp", op, ty, a, b)
def isnan(x): return call("core::f64::<impl f64>::is_nan", x)
def isfinite(x): return call("core::f64::<impl f64>::is_finite", x)
def signpos(x): return call("core::f64::<impl f64>::is_sign_positive", x)
def signneg(x): return call("core::f64::<impl f64>::is_sign_negative", x)
def pcmp(a, b): return call(D.F64_PCMP, a, b)
def c64(x): return vg.f64c(x)
def tf(h, l): return mk("agg", ("adt", "TwoFloat", 0, "TwoFloat"), (h, l))
def OP(op, lt, rt, a, b): return call("op:%s:%s:%s" % (op, lt, rt), a, b)
def NEG(a): return call("op:neg:TwoFloat:TwoFloat", a)
NONE = mk("agg", ("adt", "core::option::Option", 0, "None"), ())

def get_tree(rep, f, rule, ident, level="op", inline_extra=(), keep=()):
    b = f.get(ident)
    if b is None:
        rep.fail(rule, ident, "anchor-lost:" + ident, "%s not found (reason=anchor-lost)" % ident)
        return None, None
    try:
        return H.tree_of(f, b, level, inline_extra=inline_extra, keep=keep), b
    except vg.Unsupported as u:
        rep.fail(rule, ident, "unsupported:" + ident, "cannot evaluate %s: %s" % (ident, u), where=H.where(b))
        return None, b

_N = norm.Normalizer("E", opcomm=True)

def expect_equiv(rep, rule, inst, key, got, ref, body, what, leaf_eq=D.default_leaf_eq, **kw):
    got = D.map_terms(got, _N.norm)
    refs = ref if isinstance(ref, list) else [ref]
    m = None
    try:
        for r_ in refs:
            m = D.equivalent(got, D.map_terms(r_, _N.norm), leaf_eq)
            if m is None:
                break
    except RuntimeError as e:
        rep.fail(rule, inst, key + ":budget", "comparison of %s exceeded its budget: %s" % (inst, e), where=H.where(body)); return False
    if m is None:
        rep.ok(rule, inst, detail=what, **kw)
        return True
    rep.fail(rule, inst, key, "%s deviates from the reference table (%s): %s" % (inst, what, m.describe()), where=H.where(body),
             data={"tree": vg.show(got)[:3000]})
    return False

# ------------------------------------------------------------------ C06

def ne_override(rep, f, rule, lt_, rt_):
    """an overridden PartialEq::ne is an entry point of its own: it has to be the negation of eq (used by C06, and by C12 for
    `NAN != NAN`)"""
    eqi = "<%s as core::cmp::PartialEq<%s>>::eq" % (lt_, rt_)
    nei = "<%s as core::cmp::PartialEq<%s>>::ne" % (lt_, rt_)
    if f.get(nei) is None:
        return 0
    te, be = get_tree(rep, f, rule, eqi)
    tn, bn = get_tree(rep, f, rule, nei, inline_extra=(eqi,))
    if te is not None and tn is not None:
        neg = D.map_leaves(D.expand_bool_leaves(te), lambda l: RET(FALSE if l[1] is TRUE else TRUE) if l[0] == "leaf" and l[1] in (TRUE, FALSE) else l)
        expect_equiv(rep, rule, nei, "override:" + nei, D.expand_bool_leaves(tn), neg, bn, "ne(a, b) == !eq(a, b)")
    return 1

def nan_screen(rep, f, rule, only_eq=False):
    """with any one word NaN, eq is false / partial_cmp is None on every outcome class"""
    a, b = P(0), P(1)
    EQ = "<TwoFloat as core::cmp::PartialEq<TwoFloat>>::eq"
    PC = "<TwoFloat as core::cmp::PartialOrd<TwoFloat>>::partial_cmp"
    words = [HI(a), LO(a), HI(b), LO(b)]
    for ident, bad_is, kind in ((EQ, "false", "bool"), (PC, "None", "ord")):
        if only_eq and kind != "bool":
            continue
        t, body = get_tree(rep, f, rule, ident)
        if t is None:
            continue
        t = D.map_terms(t, _N.norm)
        t2 = D.expand_bool_leaves(t) if kind == "bool" else D.expand_ordering_leaves(t)
        for w, wn in zip(words, ("self.hi", "self.lo", "other.hi", "other.lo")):
            env_assume = ("bool", isnan(w))
            def assume(env, v=env_assume):
                env.val.setdefault(v, True)
                return True
            outs = D.all_outcomes(t2, assume=assume)
            wrong = [(e, l) for e, l in outs if not ((kind == "bool" and l[0] == "leaf" and l[1] is FALSE) or (kind == "ord" and l == ("ord", "un")))]
            rep.check(not wrong, rule, "%s with %s NaN" % (ident.split("::")[-1], wn), "nan-screen:%s:%s" % (ident.split("::")[-1], wn),
                      "%s does not return %s on every path when %s is NaN: e.g. %s" % (ident, bad_is, wn, D.Mismatch(wrong[0][0], wrong[0][1], ("expected", bad_is)).describe() if wrong else ""),
                      where=H.where(body), detail="%d outcome classes, all %s" % (len(outs), bad_is))


def check_C06(ctx, rep):
    f = ctx.facts("A")
    a, b = P(0), P(1)
    valid = lambda x: call("TwoFloat::is_valid", x)
    EQ = "<TwoFloat as core::cmp::PartialEq<TwoFloat>>::eq"
    PC = "<TwoFloat as core::cmp::PartialOrd<TwoFloat>>::partial_cmp"
    words = [HI(a), LO(a), HI(b), LO(b)]
    nan_screen(rep, f, "R12")
    # R12b reference semantics
    t, body = get_tree(rep, f, "R12b", EQ)
    if t is not None:
        anynan = D.OR(*[isnan(w) for w in words])
        ref = anynan(RET(FALSE),
                     IF(cmp("ne", valid(a), valid(b), "bool"), RET(FALSE),
                        IF(valid(a), D.AND(cmp("eq", HI(a), HI(b)), cmp("eq", LO(a), LO(b)))(RET(TRUE), RET(FALSE)), RET(TRUE))))
        expect_equiv(rep, "R12b", "eq reference semantics", "eq-semantics", D.expand_bool_leaves(t), ref, body,
                     "NaN word -> false; validity differs -> false; both valid -> hi==hi && lo==lo; both invalid -> true")
    t, body = get_tree(rep, f, "R12b", PC)
    if t is not None:
        anynan = D.OR(*[isnan(w) for w in words])
        lex = ("rel", HI(a), HI(b), "f64", {"lt": ("ord", "lt"), "gt": ("ord", "gt"), "un": ("ord", "un"),
                                             "eq": ("rel", LO(a), LO(b), "f64", {r: ("ord", r) for r in D.REL4})})
        ref = anynan(("ord", "un"),
                     IF(valid(a), IF(valid(b), lex, ("ord", "lt")), IF(valid(b), ("ord", "gt"), ("ord", "eq"))))
        expect_equiv(rep, "R12b", "partial_cmp reference semantics", "cmp-semantics", D.expand_ordering_leaves(t), ref, body,
                     "NaN word -> None; valid/valid -> lexicographic (hi, lo); valid/invalid -> Less; invalid/valid -> Greater; invalid/invalid -> Equal")
    # R12c mixed f64 comparisons and their mirrors
    zero = c64(0.0)
    t1, b1 = get_tree(rep, f, "R12c", "<TwoFloat as core::cmp::PartialEq<f64>>::eq")
    t2, b2 = get_tree(rep, f, "R12c", "<f64 as core::cmp::PartialEq<TwoFloat>>::eq")
    ref = D.AND(cmp("eq", HI(a), b), cmp("eq", LO(a), zero))(RET(TRUE), RET(FALSE))
    if t1 is not None:
        expect_equiv(rep, "R12c", "TwoFloat == f64", "eq-f64", D.expand_bool_leaves(t1), ref, b1, "hi == c && lo == 0")
    if t2 is not None:
        sw = vg.map_tree(t2, lambda x: subst(x, {0: P(1), 1: P(0)}))
        expect_equiv(rep, "R12c", "f64 == TwoFloat (mirror)", "eq-f64-mirror", D.expand_bool_leaves(sw), ref, b2, "c == hi && lo == 0")
    t1, b1 = get_tree(rep, f, "R12c", "<TwoFloat as core::cmp::PartialOrd<f64>>::partial_cmp")
    t2, b2 = get_tree(rep, f, "R12c", "<f64 as core::cmp::PartialOrd<TwoFloat>>::partial_cmp")
    ref = ("rel", HI(a), b, "f64", {"lt": ("ord", "lt"), "gt": ("ord", "gt"), "un": ("ord", "un"),
                                    "eq": ("rel", LO(a), zero, "f64", {r: ("ord", r) for r in D.REL4})})
    if t1 is not None:
        expect_equiv(rep, "R12c", "TwoFloat <=> f64", "cmp-f64", D.expand_ordering_leaves(t1), ref, b1, "compare hi with c, then lo with 0")
    if t2 is not None:
        sw = vg.map_tree(t2, lambda x: subst(x, {0: P(1), 1: P(0)}))
        expect_equiv(rep, "R12c", "f64 <=> TwoFloat (mirror)", "cmp-f64-mirror", D.expand_ordering_leaves(sw, flip=True), ref, b2, "reverse of TwoFloat <=> f64")
    # R12o overridden comparison operators agree with partial_cmp / eq (none in the crate today: PartialOrd's
    # provided lt/le/gt/ge and PartialEq's ne are used; an override is an independent entry point)
    n_over = 0
    for lt_, rt_ in ((TF, TF), (TF, "f64"), ("f64", TF)):
        pc = "<%s as core::cmp::PartialOrd<%s>>::partial_cmp" % (lt_, rt_)
        for meth in ("lt", "le", "gt", "ge"):
            ident = "<%s as core::cmp::PartialOrd<%s>>::%s" % (lt_, rt_, meth)
            if f.get(ident) is None:
                continue
            n_over += 1
            tp, bp = get_tree(rep, f, "R12o", pc)
            tm, bm = get_tree(rep, f, "R12o", ident, inline_extra=(pc,))
            if tp is None or tm is None:
                continue
            derived = D.map_leaves(D.expand_ordering_leaves(tp), lambda l: RET(TRUE if l[1] in D.OPS[meth] else FALSE) if l[0] == "ord" else l)
            expect_equiv(rep, "R12o", ident, "override:" + ident, D.expand_bool_leaves(tm), derived, bm, "%s(a, b) == matches!(partial_cmp(a, b), %s)" % (meth, sorted(D.OPS[meth])))
        n_over += ne_override(rep, f, "R12o", lt_, rt_)
    rep.check(True, "R12o", "comparison operator overrides", "x", "", detail="%d overridden lt/le/gt/ge/ne bodies compared with partial_cmp / eq" % n_over, nontrivial=False)
    # R12v the link used by the comparison theory: a value with a NaN word is not valid
    t, body = get_tree(rep, f, "R12v", "TwoFloat::is_valid")
    if t is not None:
        t2 = D.expand_bool_leaves(D.map_terms(t, _N.norm))
        for w, wn in ((HI(a), "hi"), (LO(a), "lo")):
            def assume(env, v=("bool", isnan(w))):
                env.val.setdefault(v, True)
                return True
            outs = D.all_outcomes(t2, assume=assume)
            wrong = [(e, l) for e, l in outs if not (l[0] == "leaf" and l[1] is FALSE)]
            rep.check(not wrong, "R12v", "is_valid with %s NaN" % wn, "valid-nan:" + wn,
                      "is_valid can be true when %s is NaN: %s" % (wn, D.Mismatch(wrong[0][0], wrong[0][1], ("expected", "false")).describe() if wrong else ""),
                      where=H.where(body), detail="%d outcome classes, all false (is_finite(NaN) = false)" % len(outs), nontrivial=False)
    # min / max
    for name, op in (("min", "le"), ("max", "ge")):
        t, body = get_tree(rep, f, "R12c", "TwoFloat::" + name)
        if t is None:
            continue
        c = call("core::cmp::PartialOrd::%s<TwoFloat,TwoFloat>" % op, a, b)
        ref = IF(valid(a), IF(valid(b), IF(c, RET(a), RET(b)), RET(a)), RET(b))
        expect_equiv(rep, "R12c", "TwoFloat::" + name, "minmax:" + name, t, ref, body, "invalid operand skipped; otherwise self %s other ? self : other" % op)
    # R12d sign queries
    t, body = get_tree(rep, f, "R12d", "TwoFloat::is_sign_positive")
    if t is not None:
        expect_equiv(rep, "R12d", "is_sign_positive", "sign:pos", D.expand_bool_leaves(t), D.expand_bool_leaves(RET(signpos(HI(a)))), body, "sign bit of hi clear")
    t, body = get_tree(rep, f, "R12d", "TwoFloat::is_sign_negative")
    if t is not None:
        expect_equiv(rep, "R12d", "is_sign_negative", "sign:neg", D.expand_bool_leaves(t), D.expand_bool_leaves(RET(signneg(HI(a)))), body, "sign bit of hi set")
    t, body = get_tree(rep, f, "R12d", "TwoFloat::abs")
    if t is not None:
        pos = D.OR(cmp("gt", HI(a), zero))  # hi > 0
        ref = IF(cmp("gt", HI(a), zero), RET(a),
                 D.AND(cmp("eq", HI(a), zero), signpos(HI(a)), signpos(LO(a)))(RET(a), RET(NEG(a))))
        expect_equiv(rep, "R12d", "abs", "sign:abs", t, ref, body, "self if hi > 0 or (+0, +lo); else -self")
    t, body = get_tree(rep, f, "R12d", "TwoFloat::copysign")
    if t is not None:
        sp = lambda x: call("TwoFloat::is_sign_positive", x)
        ref = IF(cmp("eq", sp(a), sp(b), "bool"), RET(a), RET(NEG(a)))
        expect_equiv(rep, "R12d", "copysign", "sign:copysign", t, ref, body, "self if the sign bits agree, else -self")
    t, body = get_tree(rep, f, "R12d", "TwoFloat::signum")
    if t is not None:
        nan = c64(float("nan"))
        ref = IF(valid(a), IF(call("TwoFloat::is_sign_positive", a), RET(tf(c64(1.0), zero)), RET(tf(c64(-1.0), zero))), RET(("NAN",)))
        def leq(l1, l2):
            if l2 == ("leaf", ("NAN",), ()):
                v = l1[1] if l1[0] == "leaf" else None
                return tag(v) == "agg" and tag(v[2][0]) == "const" and D.f64v(v[2][0]) != D.f64v(v[2][0])
            return l1 == l2
        expect_equiv(rep, "R12d", "signum", "sign:signum", t, ref, body, "valid: +-1 by the sign bit of hi; invalid: NaN", leaf_eq=leq)
    from .rules_c10 import check_delegation_subset
    check_delegation_subset(rep, f, {"min", "max", "abs", "signum", "copysign", "is_sign_positive", "is_sign_negative", "is_positive", "is_negative"})
    from .rules_funcs import check_defaults_subset
    check_defaults_subset(rep, f, {"min", "max", "abs", "signum", "is_sign_positive", "is_sign_negative"}, rule="R16s")
    rep.floor("R12", len([o for o in rep.obl if o["rule"] == "R12"]), 8, "NaN screen instances")
    rep.floor("R12b-d", len([o for o in rep.obl if o["rule"] in ("R12b", "R12c", "R12d")]), 13, "comparison / sign decision tables")

# ------------------------------------------------------------------ C07

def no_overlap_ref(ity="i16"):
    """reference form of Definition 1.4 (DESIGN appendix B.1); offsets derived from the format.
    `ity` is the integer type the exponent difference is computed in (any type that holds
    -1077..2047 gives the same values)"""
    a, b = P(0), P(1)
    bias, p = 1023, 53
    half_off = bias + p            # 1076: exponent offset of half an ulp
    quarter_off = half_off + 1     # 1077: below a power of two the spacing halves
    bits = call("core::f64::<impl f64>::to_bits", a)
    fabs = call("libm::fabs", b)
    e = mk("cast", "IntToInt", "u64", ity, mk("i", "bitand", "u64", mk("i", "shr", "u64", bits, mk("const", "u32", 52)), mk("const", "u64", 0x7ff)))
    def limit(off):
        return call("libm::exp2", mk("cast", "IntToFloat", ity, "f64", mk("i", "sub", ity, e, mk("const", ity, off))))
    even = cmp("eq", mk("i", "bitand", "u64", bits, mk("const", "u64", 1)), mk("const", "u64", 0), "u64")
    def decide(off):
        return ("rel", fabs, limit(off), "f64", {"lt": RET(TRUE), "eq": IF(even, RET(TRUE), RET(FALSE)), "gt": RET(FALSE), "un": RET(FALSE)})
    pow2 = cmp("eq", mk("i", "bitand", "u64", bits, mk("const", "u64", (1 << 52) - 1)), mk("const", "u64", 0), "u64")
    opp = cmp("ne", call("libm::copysign", c64(1.0), a), call("libm::copysign", c64(1.0), b))
    bzero = cmp("eq", b, c64(0.0))
    normal = IF(bzero, RET(TRUE), D.AND(pow2, opp)(decide(quarter_off), decide(half_off)))
    small = IF(bzero, RET(TRUE), RET(FALSE))
    cls = mk("discr", call("core::f64::<impl f64>::classify", a))
    # FpCategory: Nan=0, Infinite=1, Zero=2, Subnormal=3, Normal=4
    return ("switch", cls, ((2, small), (3, small), (4, normal)), RET(FALSE))

def check_C07(ctx, rep):
    f = ctx.facts("A")
    a = P(0)
    NO = lambda x, y: call("fn:no_overlap", x, y)
    # R17 composition
    t, body = get_tree(rep, f, "R17", "TwoFloat::is_valid")
    if t is not None:
        ref = D.AND(isfinite(HI(a)), isfinite(LO(a)), NO(HI(a), LO(a)))(RET(TRUE), RET(FALSE))
        expect_equiv(rep, "R17", "is_valid", "is-valid", D.expand_bool_leaves(t), ref, body, "hi finite && lo finite && no_overlap(hi, lo)")
    OK = lambda v: mk("agg", ("adt", "core::result::Result", 0, "Ok"), (v,))
    def is_err(l):
        return l[0] == "leaf" and tag(l[1]) == "agg" and l[1][1][3] == "Err"
    def leq(l1, l2):
        if l2 == ("ERR",):
            return is_err(l1)
        return l1 == l2
    t, body = get_tree(rep, f, "R17", "<TwoFloat as core::convert::TryFrom<(f64, f64)>>::try_from", inline_extra=("<TwoFloat as core::convert::TryFrom<[f64; 2]>>::try_from",))
    if t is not None:
        x, y = mk("field", a, 0), mk("field", a, 1)
        ref = IF(NO(x, y), RET(OK(tf(x, y))), ("ERR",))
        expect_equiv(rep, "R17", "TryFrom<(f64,f64)>", "tryfrom-tuple", t, ref, body, "no_overlap(v.0, v.1) ? Ok{hi: v.0, lo: v.1} (words untouched) : Err", leaf_eq=leq)
    # (the array form may delegate to the tuple form, or the reverse: each is read with the other in place)
    t, body = get_tree(rep, f, "R17", "<TwoFloat as core::convert::TryFrom<[f64; 2]>>::try_from", inline_extra=("<TwoFloat as core::convert::TryFrom<(f64, f64)>>::try_from",))
    if t is not None:
        x, y = mk("index", a, mk("const", "usize", 0)), mk("index", a, mk("const", "usize", 1))
        ref = IF(NO(x, y), RET(OK(tf(x, y))), ("ERR",))
        expect_equiv(rep, "R17", "TryFrom<[f64;2]>", "tryfrom-array", t, ref, body, "no_overlap(v[0], v[1]) ? Ok{hi: v[0], lo: v[1]} : Err", leaf_eq=leq)
    for src in (TF, "&" + TF):
        for dst, kind in (("(f64, f64)", ("tuple",)), ("[f64; 2]", ("array",))):
            ident = "<%s as core::convert::From<%s>>::from" % (dst, src)
            t, body = get_tree(rep, f, "R17", ident)
            if t is not None:
                ref = RET(mk("agg", kind, (HI(a), LO(a))))
                expect_equiv(rep, "R17", ident, "into:" + ident, t, ref, body, "(hi, lo) in order, untouched", nontrivial=False)
    # R18 the predicate itself
    t, body = get_tree(rep, f, "R18", "fn:no_overlap")
    if t is not None:
        expect_equiv(rep, "R18", "no_overlap reference form", "no-overlap-form", D.expand_bool_leaves(t), [no_overlap_ref(i) for i in ("i16", "i32", "i64", "isize")], body,
                     "classify(a): Normal -> b==0 or |b| < 2^(E-1076) (2^(E-1077) below a power of two towards smaller magnitude), tie accepted iff mantissa even; Zero/Subnormal -> b==0; else false (proof: DESIGN B.1)")
    rep.floor("R17", len([o for o in rep.obl if o["rule"] == "R17"]), 7, "composition instances")

# ------------------------------------------------------------------ C08

def check_C08(ctx, rep):
    f = ctx.facts("A")
    a = P(0)
    zero = c64(0.0); half = c64(0.5)
    fts = [b.ident() for b in find_by_shape(f, 2, refs.FTS)]
    if not fts:
        rep.fail("R19", "Fast2Sum", "anchor-lost:fast2sum", "no Fast2Sum primitive identified (reason=anchor-lost)")
        return
    FTS = lambda x, y: call(fts[0], x, y)
    modf0 = lambda x: mk("field", call("libm::modf", x), 0)
    lo_int = cmp("eq", modf0(LO(a)), zero)
    hi_int = cmp("eq", modf0(HI(a)), zero)
    L = lambda n, x: call("libm::" + n, x)
    def simple(fn):
        return IF(lo_int, RET(tf(L(fn, HI(a)), LO(a))), IF(hi_int, RET(FTS(HI(a), L(fn, LO(a)))), RET(tf(L(fn, HI(a)), zero))))
    for name in ("floor", "ceil"):
        t, body = get_tree(rep, f, "R19", "TwoFloat::" + name)
        if t is not None:
            expect_equiv(rep, "R19", name, "round-table:" + name, t, simple(name), body,
                         "lo integer -> (%s(hi), lo); hi integer -> FTS(hi, %s(lo)); else %s(hi)" % (name, name, name))
    t, body = get_tree(rep, f, "R19", "TwoFloat::trunc")
    if t is not None:
        ref = IF(call("TwoFloat::is_sign_positive", a), RET(call("TwoFloat::floor", a)), RET(call("TwoFloat::ceil", a)))
        expect_equiv(rep, "R19", "trunc", "round-table:trunc", t, ref, body, "sign bit of hi clear -> floor, else ceil")
    t, body = get_tree(rep, f, "R19", "TwoFloat::round")
    if t is not None:
        lo_half = cmp("eq", L("fabs", modf0(LO(a))), half)
        hi_half = cmp("eq", L("fabs", modf0(HI(a))), half)
        same_sign = cmp("eq", signpos(HI(a)), signpos(LO(a)), "bool")
        ref = IF(lo_int, RET(tf(L("round", HI(a)), LO(a))),
                 IF(hi_int,
                    IF(lo_half, IF(call("TwoFloat::is_sign_positive", a), RET(FTS(HI(a), L("ceil", LO(a)))), RET(FTS(HI(a), L("floor", LO(a))))),
                       RET(FTS(HI(a), L("round", LO(a))))),
                    IF(hi_half, IF(same_sign, RET(tf(L("round", HI(a)), zero)), RET(tf(L("trunc", HI(a)), zero))),
                       RET(tf(L("round", HI(a)), zero)))))
        expect_equiv(rep, "R19", "round", "round-table:round", t, ref, body, "half-away-from-zero table of DESIGN B.2")
    t, body = get_tree(rep, f, "R19", "TwoFloat::fract")
    if t is not None:
        hf, lf = modf0(HI(a)), modf0(LO(a))
        ref = IF(cmp("eq", lf, zero), RET(tf(hf, zero)),
                 IF(cmp("eq", hf, zero),
                    IF(cmp("ge", HI(a), zero), IF(cmp("ge", LO(a), zero), RET(tf(lf, zero)), RET(FTS(c64(1.0), lf))),
                       IF(cmp("ge", LO(a), zero), RET(FTS(c64(-1.0), lf)), RET(tf(lf, zero)))),
                    RET(FTS(hf, LO(a)))))
        expect_equiv(rep, "R19", "fract", "round-table:fract", t, ref, body, "fract table of DESIGN B.2")
    # R20 direction consistency: only the function's own libm rounding is applied to a word
    for name, allowed in (("floor", {"libm::floor"}), ("ceil", {"libm::ceil"})):
        b = f.get("TwoFloat::" + name)
        if b is None:
            continue
        t = H.tree_of(f, b, "op")
        used = set()
        for path, leaf in vg.leaves(t):
            if leaf[0] == "leaf":
                for n in all_nodes(leaf[1]):
                    if tag(n) == "call" and n[1] in ("libm::floor", "libm::ceil", "libm::round", "libm::trunc"):
                        used.add(n[1])
        rep.check(used == allowed, "R20", "direction of " + name, "direction:" + name, "%s applies %s to a word (expected only %s)" % (name, sorted(used), sorted(allowed)),
                  where=H.where(b), detail=sorted(used))
    from .rules_c10 import check_delegation_subset
    check_delegation_subset(rep, f, {"floor", "ceil", "round", "trunc", "fract"})
    rep.floor("R19", len([o for o in rep.obl if o["rule"] == "R19"]), 5, "rounding functions")
