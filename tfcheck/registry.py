"""Property registry and command-line entry point."""
import os, sys
from . import core

def _lazy(mod, fn):
    def run(ctx, rep):
        import importlib
        m = importlib.import_module("tfcheck." + mod)
        return getattr(m, fn)(ctx, rep)
    return run

# id -> (function, level, rule text, explanation, assumptions)
PROPS = {}

def reg(pid, mod, fn, level, rule, explanation, assumptions):
    if pid in ("C01", "C12", "C13", "C14", "C15", "C16", "C17", "C18", "C19"):
        explanation = explanation + RO_TEXT
    if pid in ("C14", "C15", "C17", "C18"):
        explanation = explanation + RF_TEXT
    if pid not in ("C01", "C09", "C11", "C13", "C14", "C15", "C16", "C17", "C18"):
        explanation = explanation + RD_TEXT
    if pid != "C11":
        explanation = explanation + RB_TEXT
    PROPS[pid] = (_lazy(mod, fn), level, rule, explanation, assumptions)

RO_TEXT = " RO (S, dependency): the operators this family is composed of (+, -, *, / in every operand pairing) conform to the algorithms C03 / C04 / C05 establish - their form rules are run as an obligation of this property."
RF_TEXT = " RF (S, dependency): the functions of other families this family is built on (exp / exp2 / exp_m1 under the logarithms, ln and exp under powf, exp / ln / sqrt under the hyperbolics, sqrt under asin) conform to their own reference forms - those families' rules are run as an obligation of this property."
RD_TEXT = " RD (N): the form rules read a body as if its assertions hold, its expect / unwrap calls succeed and its overflow / bounds checks pass; every such panic site in the bodies they evaluated is discharged by the panic-site analysis (interval facts under the path conditions), entered from the public functions among those bodies."
RB_TEXT = " RB (X): every body these rules evaluated is identical in the no_std build (fma provider aside; where the rules rely on products, that provider is libm::fma(x,y,z) behind the single wrapper), so the verdict carries over to that configuration."

COMMON_ASSUME = [
    "the type-checked MIR of /repo's current working tree (dev profile, overflow checks on, mir-opt-level 0) is what is analysed; no library code is executed",
    "IEEE-754 binary64 round-to-nearest-even; correctly rounded fma providers (f64::mul_add, libm::fma)",
]

reg("C02", "rules_arith", "check_C02", "proof",
    "instances = EFT constructor bodies (public items by path, private primitives by conformance); non-trivial = body contains at least one IEEE operation; distinct by item",
    "S-rule R4: the fully inlined, E-normalised value graph of each two-word constructor equals the reference form of JMP Alg. 1/2/3/15 (refs.py); with the published exactness theorems this is the error-free-transformation property on the stated ranges. R5: the fused multiply-add is the correctly rounded provider.",
    COMMON_ASSUME + ["exactness theorems for 2Sum/Fast2Sum/2Prod-FMA absent over/underflow; Alg. 15 bound taken from the literature once conformance holds"])
reg("C03", "rules_arith", "check_C03", "proof",
    "instances = the six reference/reference add/sub bodies, four compound-assignment bodies, every by-value/mixed spelling, Sum::sum; distinct by impl",
    "S-rules R6 (conformance of +,- to Alg. 4 / Alg. 6 at IEEE-operation level), R13/R14 (every spelling and compound assignment has the identical normal form), R7 (Sum is fold(0, +)); R6x (S, rewriting): a + (-a) and a - a are exactly zero. The error bounds are the theorems' once conformance holds.",
    COMMON_ASSUME + ["Joldes-Muller-Popescu 2017 Alg. 4 (2u^2) and Alg. 6 (3u^2+13u^3) bounds under the property's range restrictions"])
reg("C04", "rules_arith", "check_C04", "proof",
    "instances = the three reference/reference mul bodies, two compound-assignment bodies, every spelling; distinct by impl",
    "S-rule R8: conformance of x to Alg. 9 (DWTimesFP3) / Alg. 12 (DWTimesDW3) with FMA nodes distinguished from mul+add; R13/R14 spellings; R5 fma provider; R8x (S, rewriting with the exact identities for 0 and +-1 and the operand's validity): a zero factor gives exactly zero, multiplying by +-1 is exact (TwoFloat and f64 factors, either side). R8p (S): an impl Product for TwoFloat, when present, is fold(1, Mul::mul).",
    COMMON_ASSUME + ["JMP 2017 Alg. 9 (2u^2), Alg. 12 (5u^2) bounds"])
reg("C05", "rules_arith", "check_C05", "other",
    "instances = DWDivFP3 bodies, the three long-division bodies, recip, every spelling; distinct by impl",
    "R9 (S): TwoFloat/f64 conforms to Alg. 15 => 3u^2. R10 (X): the three copies of the long division have the qd accurate_div skeleton q1,q2,q3 -> renorm3 and agree. R11 (S): recip is 1.0/self. R9x (S, rewriting): a zero numerator gives zero, dividing by +-1 is exact, a / a == 1 exactly. R10e (N, exact rationals, derivation DESIGN B.5 over the form R10 established): the long division is within 11 u^2 <= 16 * 2^-106 of the exact quotient (renorm3 returns q1 + q2 exactly; the third digit is absorbed).",
    COMMON_ASSUME + ["JMP 2017 Alg. 15 bound; R10e lemmas: f64 division correctly rounded, Alg. 9 / Alg. 6 / Alg. 4 bounds for the conforming operators (C03, C04), no under/overflow for high words in [2^-450, 2^450]"])
reg("C19", "rules_arith", "check_C19", "other",
    "instances = the three rem bodies and every spelling, %=, div_euclid and rem_euclid decision trees",
    "R51 (S/X): every form of % is a - trunc(a/b)*b at operator level and all spellings agree bit-for-bit. R52 (N): div_euclid / rem_euclid decision trees equal the floor/ceil adjustment table; R52d (X): a num_traits method with one of these names returns the inherent one. Numeric tolerances are not decided.",
    COMMON_ASSUME + ["accuracy of the composed operations (C03-C05, C08) is not re-derived here"])

reg("C10", "rules_c10", "check_C10", "proof",
    "obligations = one per operator spelling (R13), compound assignment (R14), algebraic identity (R15), num_traits method with an inherent counterpart (R16), Sum (R7)",
    "Program-equivalence proofs by normalisation: R13/R14 every by-value/by-reference/compound-assignment spelling of + - * / % (TwoFloat and f64 operands), Neg, Inv, Pow has the identical IEEE-operation normal form (algebra E, bit-for-bit incl. signed zeros); R15 commutativity / antisymmetry identities with 2Sum/2Prod as conformance-identified error-free primitives (E bit-exact; three identities hold only modulo the sign of zero words = recorded known finding K1); R16 every num_traits entry point (Float, FloatCore, Signed, ... and any further num_traits impl on TwoFloat whose method has an inherent namesake of the same arity) returns exactly its inherent counterpart / constant; R7 Sum is fold(0,+); R7p a Product impl, when present, is fold(1,*).",
    COMMON_ASSUME + ["identities are for finite non-overflowing evaluations (EFT commutativity is a theorem there); NaN payload bits not considered", "Float::copysign's default body equals the inherent one by review, not by graph"])

reg("C11", "rules_c11", "check_C11", "proof",
    "obligations = fma provider/argument order per configuration (R5) + one per function body and constant present in both configurations (R25)",
    "R5: in each configuration the crate's fma is a single call provider(x,y,z) to f64::mul_add (std) / libm::fma (no_std, MinGW branch) and is the only place reaching a fused multiply-add. R25: every other function body has the identical op-level decision tree (fallback: identical canonicalised MIR) and every constant the identical bits in both configurations; items in one configuration only are outside the numeric API. Hence the configurations differ only in which correctly rounded FMA they call.",
    COMMON_ASSUME + ["both trusted FMAs are correctly rounded (a property of core/libm, not of this repository)", "the MinGW target itself cannot be compiled here; its fma branch is configuration B"])

reg("C12", "rules_consts", "check_C12", "proof",
    "obligations = the 19 named constants, 19 FloatConst accessors, 6 associated constants, 2 angle factors (finite set, checked completely)",
    "R27: each constant's const-evaluated words equal dd(c) = (RN(c), RN(c-RN(c))) computed with mpmath at 600 and 900 bits (must agree) and exact rational rounding; R28: MAX/MIN are (±f64::MAX, ±largest b with RN(hi+b)=hi) computed in exact rationals, MIN_POSITIVE, NAN, ±INFINITY as stated; R29: to_degrees/to_radians are self * dd(180/pi) / dd(pi/180) through the Alg. 12 product (C04).",
    COMMON_ASSUME + ["mpmath's pi/e/log/sqrt/atan at 600 and 900 bits agree"])

reg("C01", "rules_c01", "check_C01", "other",
    "instances = every MIR Aggregate(TwoFloat) site and every TwoFloat constant of the crate (non-test), every function returning TwoFloat; non-trivial = not the {x, 0.0} form",
    "Inductive constructor discipline. R1 (N/S): every aggregate site is one of the closed set k1 EFT primitive (by conformance), k2 zero low word, k3 constant pair valid in exact rationals / explicit non-finite marker, k4 word-wise negation, k5 dominated by no_overlap(hi,lo)==true, k6 hi rounded under modf(lo).0==0 (independently scaled words are not accepted: defect D8); every TwoFloat constant and table entry is valid (exact rationals). R1b: no in-place word stores. R2: functions return only parameters/constants/classified aggregates/crate calls. R3: fields are not public, unsafe is forbidden. This decides WHERE validity is created and that there is nowhere else; it does not re-prove Fast2Sum's ordering precondition at each call site (numeric, not decided).",
    COMMON_ASSUME + ["Fast2Sum ordering preconditions at call sites are not decided"])

reg("C06", "rules_base", "check_C06", "other",
    "instances = NaN-screen obligations (2 functions x 4 words), decision tables of eq / partial_cmp / mixed f64 comparisons and their mirrors / min / max / sign queries",
    "R12 (N): with any one of the four words NaN, eq returns false and partial_cmp None on every path (all outcome classes enumerated). R12b-d (S, semantic decision-tree equivalence over order relations): eq, partial_cmp, TwoFloat<->f64 comparisons in both orders (mirror = reversed), min/max, abs, copysign, signum, is_sign_* equal their reference tables. R12o (X): an overridden lt/le/gt/ge/ne equals the function of partial_cmp/eq it replaces. R12v (N): is_valid is false whenever a word is NaN (theory link). That lexicographic comparison of words equals comparison of exact values rests on normalisation (C01) and is not re-proved.",
    COMMON_ASSUME + ["lexicographic (hi, lo) order == order of exact values for normalised operands (numeric lemma, not decided)"])
reg("C07", "rules_base", "check_C07", "other",
    "instances = is_valid, two TryFrom impls, four From<TwoFloat> projections, the no_overlap predicate",
    "R17 (S): is_valid == finite && finite && no_overlap(hi, lo); TryFrom gates on no_overlap of exactly the words it stores, untouched and in order; projections return (hi, lo). R18 (S*): no_overlap's decision tree is semantically equal to the reference form of Definition 1.4 whose offsets are derived from the binary64 format (hand proof in DESIGN B.1 covers all 2^128 pairs). An equivalent re-implementation in another spelling would be reported as reference-form-lost.",
    COMMON_ASSUME + ["DESIGN appendix B.1 (hand proof of the reference form)"])
reg("C08", "rules_base", "check_C08", "other",
    "instances = floor, ceil, trunc, round, fract decision tables; direction rule for floor/ceil",
    "R19 (S*): each rounding function's decision tree is semantically equal to the reviewed case table (DESIGN B.2: which word is rounded, in which direction, how the pair is rebuilt). R20 (N): floor applies only libm::floor to a word, ceil only libm::ceil.",
    COMMON_ASSUME + ["DESIGN appendix B.2 (hand case analysis: each table cell equals the exact floor/ceil/round/fract)"])

reg("C13", "rules_funcs", "check_C13", "other",
    "instances = sqrt / hypot / cbrt reference forms, exact-zero division analysis, powi special-case table and call structure, panic sites reachable from powi and the Pow impls",
    "R31 (S*): sqrt's guard table (negative -> NaN, 0 -> 0) and Karp-Markstein correction, hypot = sqrt(x^2+y^2), cbrt = zero guard + k>=1 Newton steps, compared semantically at operator level. R32 (N): with a zero argument no division by a definitely-zero value is reached. R26 (S): powi dispatches 0/1/-1 then square-and-multiply (the one loop between entry and result, in powi's own body or in a looping private helper read in place) with recip for negative n and never takes i32::abs. R31e / R26e (N, exact rationals, hand derivations DESIGN B.3/B.4 over the forms R31/R26 established): sqrt <= 32u^2, hypot <= 48u^2, cbrt <= 16u^2, powi <= (6|n|+16)u^2 for 2 <= |n| <= 2^31.",
    COMMON_ASSUME + ["R31e/R26e lemmas: libm::sqrt and the f64 operations correctly rounded, libm::cbrt within 2^-30, operator bounds of JMP 2017 for conforming code (C02-C04), long division within 16u^2 (C05, rule R10e), no under/overflow on the stated ranges"])
reg("C14", "rules_funcs", "check_C14", "other",
    "instances = 161 table entries in 4 families (R33), 3 series truncation bounds (R34), range switches and reference forms of exp / exp_half / exp_m1 / exp2 / powf (R35)",
    "R33 (S, data): every entry of the 1/i!, exp(n/128)-1, exp(n/2), exp(16n) tables is the correctly rounded double-double of its family value (family and offset inferred from the data, then enforced on every entry), and the index maps agree with the offsets. R34 (N): Taylor truncation remainders (exact rationals) stay below half the property's floors. R35 (N/S*): range-switch literals lie in the windows the property allows; exp, exp_half, exp_m1, exp2, powf equal their reference forms semantically. Accuracy floors are not decided.",
    COMMON_ASSUME + ["rounding error of the double-double evaluation is not decided"])

reg("C15", "rules_funcs", "check_C15", "other",
    "instances = ln / log2 / ln_1p guard tables and Newton chains, log and log10 quotient forms",
    "R37/R39 (N/S*): ln, log2, ln_1p have the exact-point and domain guards (==1 -> 0, <=0 -> NaN; ==0 -> 0, <=-1 -> NaN) and, from the f64 estimate, at least two Newton corrections of the stated template with the matching double-double inverse (exp / exp2 / exp_m1); R38 (S): log(x,b) is ln(x)/ln(b) and log10 is ln(x)/dd(ln 10), the bit-identity clauses. Accuracy floors and log2(2^k)=k are not decided.",
    COMMON_ASSUME + ["two corrections are necessary for the stated range (one leaves ~2^-89 absolute error at |ln v| ~ 700); sufficiency (rounding error) is not decided"])
reg("C16", "rules_funcs", "check_C16", "other",
    "instances = sin / cos / sin_cos / tan dispatch tables incl. the inlined reduction, three kernel approximation bounds",
    "R41/R42 (N/X): sin, cos, tan equal reference forms consisting of the validity guard, the reduction q = round(x/dd(pi/2)), r = x - q*dd(pi/2) with threshold dd(pi/4) and the quadrant tables [S,C,-S,-C] / [C,-S,-C,S] / [T,-1/T,T,-1/T]; sin_cos arm k is (sin.arm k, cos.arm k) term-for-term (the bit-for-bit clause). R43 (N): the sin/cos/tan polynomial kernels approximate their functions on |r| <= pi/4 within half the property's floors (exact rational sup-norm over isolated critical points). R43e (N, exact rationals): end-to-end bounds - Horner rounding error by the perturbation expansion over the reference form (each operator within the relative bound of the algorithm it conforms to), argument reduction with the crate's own FRAC_PI_2 for |x| <= 2^20, reduced argument inside the kernel interval: sin, cos absolute <= 2^-66, sin relative <= 2^-64 on [2^-400, pi/4], tan's stated bound away from the poles. R42z (N): the reciprocal arms of tan must test the divisor for zero (they do not: known finding K2, tan(FRAC_PI_2) = NaN).",
    COMMON_ASSUME + ["kernel tables identified by role (leading coefficient -1/6, 1/24, 1/3)",
                     "R43e lemmas: operator error bounds of JMP 2017 Alg. 4/6/9/12 for conforming code (C03, C04), the quotient feeding round() within 16u^2 (C05, rule R10e; < 2^-61 suffices), round exact (C08); no underflow (|x| >= 2^-400)"])

reg("C17", "rules_funcs", "check_C17", "other",
    "instances = atan reduction table and range check, asin / acos forms, atan2 axis/quadrant table, two kernel approximation bounds",
    "R44 (N): atan's five-interval reduction has thresholds 2,3,5,10 on k = 4|x| + 1/4, arm constants equal to dd(atan 1/2), dd(pi/4), dd(atan 3/2), dd(pi/2), the same c in numerator and denominator of each transform, sign restoration, and the transforms map into the kernel interval (exact rationals). R45 (S*): asin / acos reference forms. R46 (N): atan2's axis and quadrant table equals the stated convention. R43' (N): asin and atan kernels approximate within half the floors. R43e (N, exact rationals): end-to-end bounds from the kernel bounds, the Horner rounding error (perturbation expansion over the reference form) and the arm transforms: atan relative <= 2^-70 on [2^-400, 2^60], atan2 <= 2^-69 off the axes, asin <= 2^-45 absolute / 2^-43 relative, acos <= 2^-45 absolute.",
    COMMON_ASSUME + ["R43e lemmas: operator error bounds of JMP 2017 Alg. 4/6/9/12 for conforming code (C03, C04), division within 16u^2 (C05, rule R10e), sqrt within 32u^2 (statement of C13), no underflow (|x| >= 2^-400)"])
reg("C18", "rules_funcs", "check_C18", "other",
    "instances = six definitions, conjugate-sum lint instances, odd-symmetry proofs",
    "R49 (S): cosh/sinh/tanh/acosh/asinh/atanh are the stated combinations of exp, ln, sqrt. R47 (N, repository-specific numerical lint): t + sqrt(t*t + c) is evaluated only with t >= 0 (abs / sign split) wherever the accurate domain contains negative arguments. R48 (S, algebra Z): sinh and tanh normalise to odd functions, so accuracy for negative arguments is accuracy for positive ones. Accuracy bounds and exact points are not decided.",
    COMMON_ASSUME + ["accuracy of exp / ln / sqrt themselves (C13-C15) is not re-derived"])

reg("C09", "rules_conv", "check_C09", "other",
    "instances = From/TryFrom impls for the ten integer types (value and reference forms), float projections, 45 num_traits routes",
    "R21 (S): small-int From is {n as f64, 0.0}; TryFrom truncates, range-checks against the exact f64 images of T::MIN/T::MAX, then casts the high word. R22 (S/N): wide-int From builds Fast2Sum(n as f64, remainder) with the three remainder arms; TryFrom range-checks against {MIN,0}..={MAX as f64,-1} (= MAX exactly) and recombines in integer arithmetic by the three arms; value/reference twins agree. R23 (S): FromPrimitive/ToPrimitive routes delegate to exactly these impls (isize/usize by size_of, or - read semantically - the fixed-width route of this target's width applied to the losslessly widened argument), NumCast's f64 fast path is limited to 2^53. Totality is decided by the panic-site analysis (R24). Exactness of the 128-bit split for every value is not decided.",
    COMMON_ASSUME + ["run-time integer/float arithmetic exactness per value is not decided"])

reg("C20", "rules_fmt", "check_C20", "other",
    "instances = 12 format_args! sites (expanded AST, linked to the MIR paths that reach them by source position) + 3 fmt bodies (MIR, 8 paths each) + template agreement, serde writer, field visitor, visit_seq, visit_map, entry point",
    "R53 (S per flag combination, X across impls; the combination a template serves is read from the MIR paths, not from the surrounding syntax): every format_args! reached from Display/LowerExp/UpperExp::fmt is '<hi> <sign> <|lo|>' with the impl's own trait, '+' exactly in the sign_plus arm and on the first numeral only, precision forwarded to both numerals exactly in the Some(p) arm; on the MIR the sign character is '+' iff lo's sign bit is clear and the arguments are (hi, sign, libm::fabs(lo)); the three impls compile identical templates. R54 (S): the writer emits struct(2){hi, lo} in order; the reader maps exactly hi/lo, visit_seq and visit_map (loop analysed by havoc abstraction + def-use slicing) feed element 0 / the Hi slot and element 1 / the Lo slot to TwoFloat::try_from, which is the only way to an Ok value, with duplicate/missing/unknown fields rejected. core::fmt's rendering of an f64 and serde data formats are trusted.",
    COMMON_ASSUME + ["f64's own Display/LowerExp/UpperExp round-trip guarantee (core::fmt) and serde's data-format behaviour"])

def main(argv):
    if not argv:
        print('usage: check <ID>|all [--tier quick|thorough]'); return 2
    pid = argv[0]
    tier = os.environ.get("VERIF_TIER", "quick")
    if "--tier" in argv:
        tier = argv[argv.index("--tier") + 1]
    if tier not in ("quick", "thorough"):
        tier = "quick"
    try:
        seed = int(os.environ.get("VERIF_SEED", "0"))
    except ValueError:
        seed = 0
    if pid == "all":
        rc = 0
        for p in sorted(PROPS):
            rc |= run_one(p, tier, seed)
        return rc
    if pid not in PROPS:
        print("unknown property %s" % pid); return 2
    if "--replay" in argv:
        # re-evaluate the property and report whether the recorded finding (by key) is still present
        import json
        path = argv[argv.index("--replay") + 1]
        try:
            key = json.load(open(path)).get("key")
        except Exception as e:
            print("cannot read replay file %s: %s" % (path, e)); return 2
        import io, contextlib
        buf = io.StringIO()
        with contextlib.redirect_stdout(buf):
            run_one(pid, tier, seed)
        out = buf.getvalue()
        import re, hashlib
        safe = re.sub(r"[^A-Za-z0-9_.-]+", "_", key)[:100] + "-" + hashlib.sha1(key.encode()).hexdigest()[:8]
        still = ("%s-%s.json" % (pid, safe)) in out
        print(out, end="")
        print("REPLAY key=%s %s" % (key, "still violated" if still else "no longer reported"))
        if still:
            print("VIOLATION property=%s replay=%s" % (pid, path))
        return 1 if still else 0
    return run_one(pid, tier, seed)

def run_one(pid, tier, seed):
    fn, level, rule, expl, assume = PROPS[pid]
    cmd = "cd /verif && ./check %s --tier %s" % (pid, tier)
    return core.run_property(pid, fn, level, tier, seed, cmd, expl, assume, rule)
