"""Fact extraction with a content-addressed cache.

The cache key is recomputed from /repo's current working tree on every invocation, so an
edited tree is always re-extracted; cargo's own freshness cache is never relied on (fresh
target dir per run, removed afterwards) and the fact file must have been written by this run."""
import fcntl, hashlib, os, shutil, subprocess, sys, tempfile, time

VERIF = os.path.dirname(os.path.dirname(os.path.abspath(__file__)))
REPO = os.environ.get("TF_REPO", "/repo")
DRIVER = os.path.join(VERIF, "tfmir", "target", "release", "tfmir")
CACHE = os.path.join(VERIF, ".cache")

CONFIGS = {
    # CI's "std" row plus serde
    "A": ["--features", "serde"],
    # CI's "no_std" row exactly (also the fma branch MinGW takes).  No serde here: serde's default features load
    # `std` into the crate graph, which makes std's inherent f64 methods (powi, ...) resolvable in a #![no_std] crate
    # and hides code whose meaning differs between a real no_std build and the default one
    "B": ["--no-default-features", "--features", "math_funcs"],
    # no_std with the serde impls (C20)
    "S": ["--no-default-features", "--features", "math_funcs,serde"],
}

class BuildError(Exception):
    def __init__(self, cfg, log):
        Exception.__init__(self, "configuration %s does not build" % cfg)
        self.cfg = cfg; self.log = log

def tree_hash():
    h = hashlib.sha256()
    files = []
    for root, dirs, fs in os.walk(os.path.join(REPO, "src")):
        dirs.sort()
        for f in sorted(fs):
            files.append(os.path.join(root, f))
    for f in ("Cargo.toml", "Cargo.lock"):
        p = os.path.join(REPO, f)
        if os.path.exists(p):
            files.append(p)
    for p in files:
        h.update(os.path.relpath(p, REPO).encode()); h.update(b"\0")
        with open(p, "rb") as fh:
            h.update(fh.read())
        h.update(b"\0")
    h.update(repr(sorted(CONFIGS.items())).encode())
    for p in (DRIVER,):
        if os.path.exists(p):
            st = os.stat(p)
            h.update(("%d:%d" % (st.st_size, int(st.st_mtime))).encode())
    return h.hexdigest()[:24]

def sysroot():
    return subprocess.check_output(["rustc", "+nightly", "--print", "sysroot"], text=True).strip()

def ensure_driver():
    if not os.path.exists(DRIVER):
        env = dict(os.environ, CARGO_NET_OFFLINE="true")
        subprocess.check_call(["cargo", "build", "--release", "--offline"], cwd=os.path.join(VERIF, "tfmir"), env=env,
                              stdout=subprocess.DEVNULL, stderr=subprocess.DEVNULL)

def facts_path(cfg):
    """Path of the fact file for configuration cfg of the current tree (extracting if needed)."""
    ensure_driver()
    key = tree_hash()
    d = os.path.join(CACHE, key)
    os.makedirs(d, exist_ok=True)
    out = os.path.join(d, cfg + ".json")
    errf = os.path.join(d, cfg + ".err")
    lock = open(os.path.join(d, cfg + ".lock"), "w")
    fcntl.flock(lock, fcntl.LOCK_EX)
    try:
        if os.path.exists(out):
            return out
        if os.path.exists(errf):
            raise BuildError(cfg, open(errf).read())
        t0 = time.time()
        tmp_out = tempfile.mkdtemp(prefix="tfmir-out.")
        tgt = tempfile.mkdtemp(prefix="tfmir-target.")
        try:
            env = dict(os.environ)
            env.update({
                "LD_LIBRARY_PATH": os.path.join(sysroot(), "lib") + ":" + env.get("LD_LIBRARY_PATH", ""),
                "RUSTFLAGS": "-Zmir-opt-level=0 -Awarnings",
                "RUSTC_WORKSPACE_WRAPPER": DRIVER,
                "CARGO_TARGET_DIR": tgt,
                "CARGO_NET_OFFLINE": "true",
                "TFMIR_OUT": tmp_out,
                "TFMIR_CRATE": "twofloat",
            })
            p = subprocess.run(["cargo", "+nightly", "check", "--offline", "--lib"] + CONFIGS[cfg], cwd=REPO, env=env,
                               stdout=subprocess.PIPE, stderr=subprocess.STDOUT, text=True)
            produced = os.path.join(tmp_out, "twofloat.json")
            if p.returncode != 0 or not os.path.exists(produced):
                with open(errf, "w") as fh:
                    fh.write(p.stdout)
                raise BuildError(cfg, p.stdout)
            shutil.move(produced, out)
        finally:
            shutil.rmtree(tmp_out, ignore_errors=True)
            shutil.rmtree(tgt, ignore_errors=True)
        prune_cache(keep=key)
        return out
    finally:
        fcntl.flock(lock, fcntl.LOCK_UN)
        lock.close()

def prune_cache(keep, max_entries=6):
    try:
        now = time.time()
        ents = [(os.path.getmtime(os.path.join(CACHE, e)), e) for e in os.listdir(CACHE) if e != keep]
        ents.sort(reverse=True)
        for mt, e in ents[max_entries:]:
            if now - mt > 900:      # never remove an entry another concurrent check may be reading
                shutil.rmtree(os.path.join(CACHE, e), ignore_errors=True)
    except OSError:
        pass

if __name__ == "__main__":
    for c in sys.argv[1:] or ["A"]:
        print(facts_path(c))
