"""Exact-point clauses of C03 / C04 / C05 proved by rewriting (see exactpoints.py)."""
from . import vg, helpers as H, exactpoints as X, norm
from .helpers import P, HI, LO, TF
from .terms import mk, tag
from .rules_c10 import subst, leaf_value

def tfc(h, l): return mk("agg", ("adt", "TwoFloat", 0, "TwoFloat"), (h, l))

def prove_exact(rep, rule, name, key, term, expect, valid=(), nz=(), where=None):
    got = X.rewrite(term, valid=valid, nz=nz)
    a = H.pair_of(got)
    ok = a[0] is expect[0] and a[1] is expect[1]
    rep.check(ok, rule, name, key, "%s is not provable: the result rewrites to (%s, %s), expected (%s, %s)" % (name, vg.show(a[0])[:200], vg.show(a[1])[:200], vg.show(expect[0])[:60], vg.show(expect[1])[:60]),
              detail="rewrites to (%s, %s) with the finite-operand identities for 0 and +-1%s" % (vg.show(expect[0])[:40], vg.show(expect[1])[:40], " and the validity of the operand" if valid else ""), where=where)

def ops(rep, f, rule, need):
    """prim-level results of the operator bodies a property's exact-point clauses are about (only those)"""
    rt, rf = "&" + TF, "&f64"
    idents = {"add_tt": H.op_ident("Add", rt, rt, "add"), "sub_tt": H.op_ident("Sub", rt, rt, "sub"),
              "mul_tt": H.op_ident("Mul", rt, rt, "mul"), "mul_tf": H.op_ident("Mul", rt, rf, "mul"), "mul_ft": H.op_ident("Mul", rf, rt, "mul"),
              "div_tf": H.op_ident("Div", rt, rf, "div"), "div_tt": H.op_ident("Div", rt, rt, "div"), "div_ft": H.op_ident("Div", rf, rt, "div"),
              "neg": "<&TwoFloat as core::ops::Neg>::neg"}
    return {k: leaf_value(f, idents[k], (), rep, rule) for k in need}

def S(t, x, y): return subst(t, {0: x, 1: y})

def check_exact_C03(rep, f):
    o = ops(rep, f, "R6x", ("add_tt", "sub_tt", "neg"))
    if any(v is None for v in o.values()):
        return
    a = P(0)
    Z = (X.ZERO, X.ZERO)
    nega = subst(o["neg"], {0: a})
    prove_exact(rep, "R6x", "a + (-a) == 0 exactly", "zero-sum:add", S(o["add_tt"], a, nega), Z)
    prove_exact(rep, "R6x", "a - a == 0 exactly", "zero-sum:sub", S(o["sub_tt"], a, a), Z)

def check_exact_C04(rep, f):
    o = ops(rep, f, "R8x", ("mul_tt", "mul_tf", "mul_ft"))
    if any(v is None for v in o.values()):
        return
    a = P(0)
    Z = (X.ZERO, X.ZERO); ZT = tfc(X.ZERO, X.ZERO)
    ONE = tfc(X.ONE, X.ZERO); MONE = tfc(X.MONE, X.ZERO)
    same = (HI(a), LO(a)); negd = (X.fneg(HI(a)), X.fneg(LO(a)))
    prove_exact(rep, "R8x", "a * 0 == 0 (TwoFloat zero)", "zero-factor:tt-right", S(o["mul_tt"], a, ZT), Z)
    prove_exact(rep, "R8x", "0 * a == 0 (TwoFloat zero)", "zero-factor:tt-left", S(o["mul_tt"], ZT, a), Z)
    prove_exact(rep, "R8x", "a * 0.0 == 0", "zero-factor:tf", S(o["mul_tf"], a, X.ZERO), Z)
    prove_exact(rep, "R8x", "0.0 * a == 0", "zero-factor:ft", S(o["mul_ft"], X.ZERO, a), Z)
    prove_exact(rep, "R8x", "a * 1.0 == a", "times-one:tf", S(o["mul_tf"], a, X.ONE), same, valid=[a])
    prove_exact(rep, "R8x", "a * -1.0 == -a", "times-minus-one:tf", S(o["mul_tf"], a, X.MONE), negd, valid=[a])
    prove_exact(rep, "R8x", "a * TwoFloat(1) == a", "times-one:tt-right", S(o["mul_tt"], a, ONE), same, valid=[a])
    prove_exact(rep, "R8x", "TwoFloat(1) * a == a", "times-one:tt-left", S(o["mul_tt"], ONE, a), same, valid=[a])
    prove_exact(rep, "R8x", "a * TwoFloat(-1) == -a", "times-minus-one:tt", S(o["mul_tt"], a, MONE), negd, valid=[a])

def check_exact_C05(rep, f):
    o = ops(rep, f, "R9x", ("div_tf", "div_tt", "div_ft"))
    if any(v is None for v in o.values()):
        return
    a, b = P(0), P(1)
    Z = (X.ZERO, X.ZERO); ZT = tfc(X.ZERO, X.ZERO)
    ONE = tfc(X.ONE, X.ZERO); MONE = tfc(X.MONE, X.ZERO)
    same = (HI(a), LO(a)); negd = (X.fneg(HI(a)), X.fneg(LO(a)))
    prove_exact(rep, "R9x", "0 / f == 0", "zero-numerator:tf", S(o["div_tf"], ZT, b), Z, nz=[b])
    prove_exact(rep, "R9x", "0 / d == 0 (TwoFloat divisor)", "zero-numerator:tt", S(o["div_tt"], ZT, b), Z, nz=[HI(b)])
    prove_exact(rep, "R9x", "0.0 / d == 0", "zero-numerator:ft", S(o["div_ft"], X.ZERO, b), Z, nz=[HI(b)])
    prove_exact(rep, "R9x", "a / 1.0 == a", "div-one:tf", S(o["div_tf"], a, X.ONE), same, valid=[a])
    prove_exact(rep, "R9x", "a / -1.0 == -a", "div-minus-one:tf", S(o["div_tf"], a, X.MONE), negd, valid=[a])
    prove_exact(rep, "R9x", "a / TwoFloat(1) == a", "div-one:tt", S(o["div_tt"], a, ONE), same, valid=[a])
    prove_exact(rep, "R9x", "a / a == 1", "self-division", S(o["div_tt"], a, a), (X.ONE, X.ZERO), valid=[a], nz=[HI(a)])
