"""Symbolic evaluation of MIR bodies into value graphs / decision trees.

No library code is executed: MIR statements are interpreted over a term algebra.  Terms are
hash-consed Python tuples:

  mk("param", i)                        i-th argument (for reference arguments: the pointee)
  mk("const", ty, bits)                 scalar constant (bits as int)
  mk("carray", ty, hex)                 constant aggregate kept as raw bytes (tables)
  mk("field", t, i) mk("deref", t) mk("downcast", t, name) mk("index", t, i) mk("discr", t)
  mk("f", op, a, b...)                  IEEE binary64 primitive: add sub mul div neg fma
  mk("i", op, ty, a, b)                 integer / bool primitive
  mk("cmp", op, ty, a, b)               primitive comparison lt le gt ge eq ne
  mk("cast", kind, from, to, a)
  mk("call", name, args...)             opaque call (pure)
  mk("after", callterm, k)              state of a &mut argument after an opaque call
  mk("agg", kind, (v...))               tuple / struct / enum variant / array / closure
  mk("ref", loc, proj)                  reference into the store (never escapes a result)
  mk("unit")

Trees:
  ("leaf", retval, effects)           effects: tuple of (param index, final pointee value)
  ("if", cond, then, else)
  ("switch", cond, ((val, tree)...), otherwise_tree)
  ("panic", what)
"""
import re
from . import facts as F
from .terms import mk, tag, Node, is_node, rebuild, all_nodes

class Unsupported(Exception):
    pass

OPS_TRAITS = {
    "core::ops::Add": "add", "core::ops::Sub": "sub", "core::ops::Mul": "mul",
    "core::ops::Div": "div", "core::ops::Rem": "rem", "core::ops::Neg": "neg",
}
ASSIGN_TRAITS = {
    "core::ops::AddAssign": "add", "core::ops::SubAssign": "sub", "core::ops::MulAssign": "mul",
    "core::ops::DivAssign": "div", "core::ops::RemAssign": "rem",
}

def _subst_closure(term, clo, acc, el):
    """instantiate a closure body leaf  |acc, elem| ...  (parameters: p0 = environment, p1, p2)"""
    env = clo
    def f(a):
        if a[0] == "param":
            return {0: env, 1: acc, 2: el}.get(a[1], mk(*a))
        if a[0] == "field" and tag(a[1]) == "agg" and a[2] < len(a[1][2]) and a[1][2][a[2]] is not None:
            return a[1][2][a[2]]
        if a[0] == "deref" and tag(a[1]) not in ("ref", "vref", None) :
            return a[1]
        return mk(*a)
    return rebuild(term, f, {})

def strip_ref(t):
    t = t.strip()
    while t.startswith("&"):
        t = t[1:].strip()
        if t.startswith("mut "):
            t = t[4:].strip()
    return t

def canon_generic(s):
    s = re.sub(r"#(KEY|DEF):.*$", "", s)
    s = F.norm_ty(s)
    s = re.sub(r"\{closure@[^}]*\}", "{closure}", s)
    return s

def subst_ty(a, subst):
    if not subst:
        return a
    # anonymous `impl Trait` parameters are named by their whole bound: replace those literally first
    for k in sorted((k for k in subst if not re.match(r"^\w+$", k)), key=len, reverse=True):
        a = a.replace(k, subst[k])
    ids = [k for k in subst if re.match(r"^\w+$", k)]
    if not ids:
        return a
    return re.sub(r"\b(%s)\b" % "|".join(re.escape(k) for k in sorted(ids, key=len, reverse=True)), lambda m: subst[m.group(1)], a)

def is_const(t):
    return tag(t) == "const"

def cint(t):
    return t[2]

def mk_const(ty, bits):
    return mk("const", ty, bits)

def f64c(x):
    import struct
    return mk("const", "f64", struct.unpack("<Q", struct.pack("<d", x))[0])

INT_BITS = {"i8": 8, "i16": 16, "i32": 32, "i64": 64, "i128": 128, "isize": 64,
            "u8": 8, "u16": 16, "u32": 32, "u64": 64, "u128": 128, "usize": 64}

def to_signed(ty, bits):
    n = INT_BITS[ty]
    bits &= (1 << n) - 1
    if ty.startswith("i") and bits >> (n - 1):
        return bits - (1 << n)
    return bits

def from_signed(ty, v):
    n = INT_BITS[ty]
    return v & ((1 << n) - 1)

def in_range(ty, v):
    n = INT_BITS[ty]
    if ty.startswith("i"):
        return -(1 << (n - 1)) <= v < (1 << (n - 1))
    return 0 <= v < (1 << n)

COVERED = set()     # idents of every body evaluated (entry or inlined) in this process

class Frame:
    __slots__ = ("body", "mir", "locs", "ret_to", "depth", "visited", "seen_at", "revisits", "subst")
    def __init__(self, body, mir, locs, ret_to, depth):
        self.body = body; self.mir = mir; self.locs = locs; self.ret_to = ret_to
        self.subst = {}         # generic parameter name -> concrete type (frames of inlined generic helpers)
        self.depth = depth; self.visited = frozenset()
        self.seen_at = {}       # block -> number of symbolic forks on the path when last visited
        self.revisits = 0

class State:
    __slots__ = ("frames", "store", "known", "nloc", "asserts", "nforks")
    def __init__(self):
        self.frames = []; self.store = {}; self.known = {}; self.nloc = [0]; self.asserts = []; self.nforks = 0
    def fork(self):
        s = State()
        s.frames = []
        for f in self.frames:
            g = Frame(f.body, f.mir, f.locs, f.ret_to, f.depth)
            g.visited = f.visited
            g.seen_at = dict(f.seen_at); g.revisits = f.revisits
            g.subst = f.subst
            s.frames.append(g)
        s.store = dict(self.store); s.known = dict(self.known); s.nloc = self.nloc
        s.asserts = list(self.asserts)
        s.nforks = self.nforks + 1
        return s
    def alloc(self):
        self.nloc[0] += 1
        return self.nloc[0]

_written_memo = {}
def closure_written_captures(cb):
    """indices of the captured variables a closure body assigns through (places rooted at the environment with a deref
    after the capture's field), or passes on as `&mut`"""
    if cb.key in _written_memo:
        return _written_memo[cb.key]
    out = set()
    def env_field(p):
        # (*_1).i or _1.i followed by a deref: the pointee of capture i
        if p["l"] != 1:
            return None
        proj = [e for e in p["p"]]
        fi = None
        for k, e in enumerate(proj):
            if isinstance(e, dict) and "f" in e and fi is None:
                fi = e["f"]
            elif e == "deref" and fi is not None:
                return fi
        return None
    def env_capture(p):
        # (*_1).i or _1.i itself (the captured reference)
        if not isinstance(p, dict) or p.get("l") != 1:
            return None
        fs = [e for e in p["p"] if isinstance(e, dict) and "f" in e]
        if len(fs) == 1 and p["p"][-1] is fs[0] or (len(fs) == 1 and p["p"] and p["p"][-1] == fs[0]):
            return fs[0]["f"]
        return None
    for blk in cb.mir["blocks"]:
        for s_ in blk["s"]:
            if "lhs" in s_:
                fi = env_field(s_["lhs"])
                if fi is not None:
                    out.add(fi)
                # the captured `&mut` copied into a local (and used through it)
                rv0 = s_.get("rv", {})
                if "use" in rv0 and isinstance(rv0["use"], dict):
                    src = rv0["use"].get("copy") or rv0["use"].get("move")
                    fi2 = env_capture(src) if src else None
                    if fi2 is not None and not s_["lhs"]["p"] and F.norm_ty(cb.mir["locals"][s_["lhs"]["l"]]["ty"]).startswith("&mut"):
                        out.add(fi2)
                rv = s_.get("rv", {})
                if "ref" in rv and rv.get("mut"):
                    fi = env_field(rv["ref"]) if isinstance(rv["ref"], dict) else None
                    if fi is not None:
                        out.add(fi)
        t = blk["t"]
        if t["k"] == "call":
            fi = env_field(t["dest"]) if isinstance(t.get("dest"), dict) else None
            if fi is not None:
                out.add(fi)
    _written_memo[cb.key] = out
    return out

def const_range(v):
    """(integer type, lo, hi) of a `lo..hi` value with constant bounds"""
    if tag(v) == "agg" and v[1][0] == "adt" and v[1][1] == "core::ops::Range" and len(v[2]) == 2 \
            and all(tag(x) == "const" and x[1] in INT_BITS for x in v[2]) and v[2][0][1] == v[2][1][1]:
        ty = v[2][0][1]
        return ty, to_signed(ty, v[2][0][2]), to_signed(ty, v[2][1][2])
    return None

class Policy:
    """What to inline and how to name opaque calls."""
    def __init__(self, facts, level="prim", keep=(), max_depth=12, inline_extra=(), inline_private=False):
        self.facts = facts
        self.inline_private = inline_private
        self._loopy = {}
        self.level = level          # "prim": inline every local callee; "op": keep operators opaque
        self.keep = set(keep)       # idents never inlined
        self.inline_extra = set(inline_extra)
        self.max_depth = max_depth

    def op_of(self, body):
        """(kind, opname, lhs base type, rhs base type) for operator-trait impls on TwoFloat/f64."""
        if body.trait in OPS_TRAITS:
            return ("op", OPS_TRAITS[body.trait], strip_ref(body.self_ty),
                    strip_ref(body.trait_args[0]) if body.trait_args else strip_ref(body.self_ty))
        if body.trait in ASSIGN_TRAITS:
            return ("assign", ASSIGN_TRAITS[body.trait], strip_ref(body.self_ty),
                    strip_ref(body.trait_args[0]) if body.trait_args else strip_ref(body.self_ty))
        return None

    def has_loop_or_recursion(self, callee):
        k = callee.key
        if k in self._loopy:
            return self._loopy[k]
        m = callee.mir
        # back edge detection by DFS
        succ = {}
        rec = False
        for i, b in enumerate(m["blocks"]):
            t = b["t"]; out = []
            kk = t["k"]
            if kk in ("goto", "drop", "assert"):
                out.append(t["t"])
            elif kk == "call":
                if t["t"] is not None:
                    out.append(t["t"])
                r = (t.get("f") or {}).get("res") or {}
                if r.get("key") == callee.key:
                    rec = True
            elif kk == "switch":
                out.extend(t["targets"]); out.append(t["otherwise"])
            succ[i] = out
        color = {}
        loop = False
        stack = [(0, iter(succ[0]))]
        color[0] = 1
        while stack and not loop:
            n, it = stack[-1]
            for c in it:
                if color.get(c) == 1:
                    loop = True; break
                if c not in color:
                    color[c] = 1
                    stack.append((c, iter(succ[c])))
                    break
            else:
                color[n] = 2
                stack.pop()
        self._loopy[k] = loop or rec
        return self._loopy[k]

    def only_iterator_loops(self, callee):
        """the body is not recursive and every loop in it is driven by Iterator::next on a slice iterator
        (such loops have a concrete trip count over a constant table and are unrolled by the evaluator)"""
        k = ("iter", callee.key)
        if k in self._loopy:
            return self._loopy[k]
        m = callee.mir
        calls_iter = False; rec = False
        next_blocks = set()
        for i, b in enumerate(m["blocks"]):
            t = b["t"]
            if t["k"] == "call" and "f" in t:
                r = t["f"].get("res") or t["f"]
                d = F.norm_path(r.get("def", ""))
                if r.get("key") == callee.key:
                    rec = True
                if d.startswith("core::slice::<impl [T]>::iter"):
                    calls_iter = True
                if d.endswith("Iterator>::next") or d == "core::iter::Iterator::next":
                    next_blocks.add(i)
        ok = calls_iter and not rec and bool(next_blocks)
        if ok:
            # every cycle must pass through a block that calls next(): remove those blocks and look for a cycle
            succ = {}
            for i, b in enumerate(m["blocks"]):
                t = b["t"]; kk = t["k"]; out = []
                if kk in ("goto", "drop", "assert"):
                    out.append(t["t"])
                elif kk == "call" and t["t"] is not None:
                    out.append(t["t"])
                elif kk == "switch":
                    out.extend(t["targets"]); out.append(t["otherwise"])
                succ[i] = [] if i in next_blocks else out
            color = {}
            def dfs(v):
                stack = [(v, iter(succ[v]))]; color[v] = 1
                while stack:
                    n, it = stack[-1]
                    for c in it:
                        if color.get(c) == 1:
                            return True
                        if c not in color:
                            color[c] = 1; stack.append((c, iter(succ[c]))); break
                    else:
                        color[n] = 2; stack.pop()
                return False
            for v in range(len(m["blocks"])):
                if v not in color and dfs(v):
                    ok = False; break
        self._loopy[k] = ok
        return ok

    def is_accessor(self, callee):
        """single-block bodies without calls or arithmetic (field getters such as hi()/lo())"""
        m = callee.mir
        if len(m["blocks"]) != 1 or m["blocks"][0]["t"]["k"] != "ret" or callee.kind == "Closure":
            return False
        has_agg = False
        for s in m["blocks"][0]["s"]:
            rv = s.get("rv")
            if rv is None or not ("use" in rv or "ref" in rv or "agg" in rv):
                return False
            if "agg" in rv:
                has_agg = True
        # pure projections (hi(), lo()) or pure packaging of the arguments (from_f64): no arithmetic, no calls
        return True

    def should_inline(self, caller, callee, depth):
        if callee.ident() in self.keep:
            return False
        if callee.kind == "Plumbing":
            return (self.level in ("op", "prim") or callee.ident() in self.inline_extra) and depth < self.max_depth
        if self.is_accessor(callee):
            return True
        if self.level == "none":
            # only explicitly named helpers (classification functions that build no TwoFloat)
            if callee.ident() in self.inline_extra:
                return not self.has_loop_or_recursion(callee) and depth < self.max_depth
            # (on request) private free helpers of the crate: a shared `fn widen<N: Into<TwoFloat>>(n: N)` behind ten one-line methods
            return self.inline_private and not callee.reachable and callee.kind != "Closure" and callee.trait is None and callee.self_ty is None \
                and not self.has_loop_or_recursion(callee) and depth < self.max_depth
        if callee.kind == "Closure":
            # a closure called directly is private code of its parent (one with a loop stays a call)
            return not self.has_loop_or_recursion(callee)
        if depth >= self.max_depth:
            return False
        if self.level == "prim":
            return True
        if callee.ident() in self.inline_extra:
            return True
        if self.inline_private and not callee.reachable and callee.kind != "Closure" and self.op_of(callee) is None \
                and (not self.has_loop_or_recursion(callee) or self.only_iterator_loops(callee)):
            return True
        # a public inherent method that no property names (a convenience added later: `square`, `cube`) is read in place like a
        # private helper - what `hypot` computes through it is what it computes; the named API stays opaque (each is decided on its own)
        if self.inline_private and callee.reachable and callee.trait is None and callee.self_ty == "TwoFloat" and callee.kind != "Closure" \
                and callee.ident() not in NAMED_API and not self.has_loop_or_recursion(callee):
            return True
        # op level: inline only conversions between TwoFloat and tuples/arrays (pure projections)
        if callee.trait == "core::convert::From" and callee.name == "from":
            return True
        return False

# the public inherent functions that the properties name (their `observe_at` lists): the crate's API at the pinned commit
NAMED_API = frozenset("TwoFloat::" + n for n in """abs acos acosh asin asinh atan atan2 atanh cbrt ceil copysign cos cosh div_euclid exp exp2 exp_m1
 floor fract from_f64 hi hypot is_sign_negative is_sign_positive is_valid ln ln_1p lo log log10 log2 max min new_add new_div new_mul new_sub powf powi recip
 rem_euclid round signum sin sin_cos sinh sqrt tan tanh to_degrees to_radians trunc mul_add abs_sub""".split())

EXPLICIT_PANIC = re.compile(r"^core::panicking::|^core::option::(expect|unwrap)_failed|^core::result::unwrap_failed|begin_panic|panic_fmt|^core::slice::index::\w+_fail|^core::rt::")

def lossless_int(a, b):
    """every value of integer type a is a value of integer type b"""
    wa, wb = INT_BITS[a], INT_BITS[b]
    sa, sb = a.startswith("i"), b.startswith("i")
    if sa == sb:
        return wb >= wa
    return (not sa) and sb and wb > wa

class Exec:
    def __init__(self, facts, policy, max_nodes=20000, loops="reject", hooks=None):
        self.facts = facts
        self.policy = policy
        self.max_nodes = max_nodes
        self.nodes = 0
        self.sites = []   # assert / panic sites met (for information)
        self.loops = loops          # "reject": Unsupported on any loop; "havoc": over-approximate loops
        self.hooks = hooks          # optional object with decide(cond, st) / on_assert(...) / on_panic(...)
        self.hv = 0
        self.iterated = []          # (carray, lo, hi) of every constant table iterated over
        self._loopinfo = {}
        self.loop_entries = []      # (body ident, head, {local: (value before the loop, havoc term)})
        self.stop = None            # (frame depth, blocks): leaving these blocks at that depth ends the run ("exit",)
        self.closure_subst = {}     # closure body key -> type substitution of the frame that created the closure value
        self.covered = set()        # idents of the bodies this evaluator entered
        self.discr_ty = {}          # discr(v) term -> type of the local it was read from

    # ------------------------------------------------------------ loops
    def loop_info(self, mir):
        """{head block: (blocks of its strongly connected component, locals assigned there, deref'd ref locals written)}"""
        key = id(mir)
        if key in self._loopinfo:
            return self._loopinfo[key]
        blocks = mir["blocks"]
        succ = []
        for b in blocks:
            t = b["t"]; k = t["k"]; out = []
            if k in ("goto", "drop", "assert"):
                out.append(t["t"])
            elif k == "call":
                if t["t"] is not None:
                    out.append(t["t"])
            elif k == "switch":
                out.extend(t["targets"]); out.append(t["otherwise"])
            succ.append(out)
        n = len(blocks)
        # Tarjan SCC (iterative)
        index = {}; low = {}; onst = set(); stack = []; sccs = []; idx = [0]
        def strong(v):
            work = [(v, 0)]
            index[v] = low[v] = idx[0]; idx[0] += 1; stack.append(v); onst.add(v)
            while work:
                v, i = work.pop()
                if i < len(succ[v]):
                    work.append((v, i + 1))
                    w = succ[v][i]
                    if w not in index:
                        index[w] = low[w] = idx[0]; idx[0] += 1; stack.append(w); onst.add(w)
                        work.append((w, 0))
                    elif w in onst:
                        low[v] = min(low[v], index[w])
                else:
                    if work:
                        u = work[-1][0]
                        low[u] = min(low[u], low[v])
                    if low[v] == index[v]:
                        comp = []
                        while True:
                            w = stack.pop(); onst.discard(w); comp.append(w)
                            if w == v:
                                break
                        sccs.append(comp)
        strong(0)
        info = {}
        for comp in sccs:
            cs = set(comp)
            if len(comp) == 1 and comp[0] not in succ[comp[0]]:
                continue
            # heads: blocks of the component entered from outside (or block 0)
            heads = set()
            for v in range(n):
                if v in index and v not in cs:
                    for w in succ[v]:
                        if w in cs:
                            heads.add(w)
            if 0 in cs:
                heads.add(0)
            assigned = set(); through = set()
            for v in comp:
                b = blocks[v]
                for st_ in b["s"]:
                    if "lhs" in st_:
                        pl = st_["lhs"]
                        if "deref" in pl["p"]:
                            through.add(pl["l"])
                        else:
                            assigned.add(pl["l"])
                        rv = st_["rv"]
                        if "ref" in rv and rv.get("mut"):
                            tp = rv["ref"]
                            if "deref" in tp["p"]:
                                through.add(tp["l"])
                            else:
                                assigned.add(tp["l"])
                t = b["t"]
                if t["k"] == "call":
                    pl = t["dest"]
                    if "deref" in pl["p"]:
                        through.add(pl["l"])
                    else:
                        assigned.add(pl["l"])
            for h in heads:
                info[h] = (cs, assigned, through)
        self._loopinfo[key] = info
        return info

    def havoc(self, st, fr, head):
        cs, assigned, through = self.loop_info(fr.mir)[head]
        entry = {}
        for l in sorted(assigned):
            self.hv += 1
            before = st.store.get(fr.locs[l])
            lty = F.norm_ty(fr.mir["locals"][l]["ty"])
            hvt = mk("havoc", self.hv, lty)
            mr = re.match(r"^core::ops::Range<(\w+)>$", lty)
            if mr and mr.group(1) in INT_BITS and tag(before) == "agg" and len(before[2]) == 2 and self.range_only_next(fr, cs, l):
                # a `lo..hi` that the loop only advances with next(): its end stays what it is, its start is anything
                # not below where it began (next() stops at the end)
                hvt = mk("agg", before[1], (mk("havoc", self.hv, mr.group(1)), before[2][1]))
                st.known[self.binop("Ge", mr.group(1), hvt[2][0], before[2][0])] = 1
            if before is not None:
                entry[l] = (self.deref_value(st, before), hvt)
            st.store[fr.locs[l]] = hvt
        self.loop_entries.append((fr.body.ident(), head, entry))
        for l in sorted(through):
            v = st.store.get(fr.locs[l])
            if tag(v) == "ref":
                self.hv += 1
                self.store_to(st, v[1], tuple(v[2]), mk("havoc", self.hv, "pointee"))
        if self.hooks is not None and hasattr(self.hooks, "loop_invariants"):
            for c, v in self.hooks.loop_invariants(self, st, fr, head, entry):
                st.known[c] = v
        return sorted(assigned)

    @staticmethod
    def _mentions(obj, l):
        if isinstance(obj, dict):
            if obj.get("l") == l and "p" in obj:
                return True
            if obj.get("idx") == l:
                return True
            return any(Exec._mentions(v, l) for v in obj.values())
        if isinstance(obj, (list, tuple)):
            return any(Exec._mentions(v, l) for v in obj)
        return False

    def range_only_next(self, fr, cs, l):
        """inside the loop the local is touched only as `tmp = &mut l; [tmp2 = &mut *tmp;] Range::next(move tmp)`"""
        blocks = fr.mir["blocks"]
        tmps = set(); borrow_stmts = set()
        changed = True
        while changed:
            changed = False
            for bi in cs:
                for k_, s_ in enumerate(blocks[bi]["s"]):
                    if "lhs" not in s_ or (bi, k_) in borrow_stmts or s_["lhs"]["p"]:
                        continue
                    rv = s_["rv"]
                    if "ref" in rv and rv.get("mut"):
                        src = rv["ref"]
                        if (src["l"] == l and not src["p"]) or (src["l"] in tmps and src["p"] == ["deref"]):
                            tmps.add(s_["lhs"]["l"]); borrow_stmts.add((bi, k_)); changed = True
        if not tmps:
            return False
        watched = tmps | {l}
        for bi in cs:
            for k_, s_ in enumerate(blocks[bi]["s"]):
                if (bi, k_) in borrow_stmts:
                    continue
                if any(self._mentions(s_, w) for w in watched):
                    return False
            t = blocks[bi]["t"]
            if any(self._mentions(t, w) for w in watched):
                d = F.norm_path(((t.get("f") or {}).get("res") or t.get("f") or {}).get("def", "")) if t["k"] == "call" else ""
                args = t.get("args", []) if t["k"] == "call" else []
                ok = d.endswith("core::ops::Range<A>>::next") and len(args) == 1 and "move" in args[0] and args[0]["move"]["l"] in tmps and not args[0]["move"]["p"] \
                    and not any(self._mentions(t["dest"], w) for w in watched)
                if not ok:
                    return False
        return True

    def iterate_once(self, st, fr, head, extra_known, hooks):
        """one symbolic iteration of the loop at `head` from the (havoc'd) state `st`:
        [(facts assumed on the way, {local: value at the back edge})] for every path that returns to `head`"""
        cs, assigned, through = self.loop_info(fr.mir)[head]
        sub = Exec(self.facts, self.policy, max_nodes=6000, loops=self.loops, hooks=hooks)
        sub.hv = self.hv + 100000
        sub.param_locs = getattr(self, "param_locs", {})
        sub.stop = (len(st.frames), frozenset(cs))
        s2 = st.fork()
        s2.nloc = [st.nloc[0] + 100000]
        s2.known.update(extra_known)
        f2 = s2.frames[-1]
        f2.visited = frozenset(); f2.seen_at = {head: -1}; f2.revisits = 0
        tree = sub.exec_block(s2, head)
        out = []
        for path, leaf in leaves(tree):
            if leaf[0] == "backedge" and leaf[1] == fr.body.ident() and leaf[2] == head:
                known = dict(st.known); known.update(extra_known)
                for c, v in path:
                    if v is True or v is False:
                        known[c] = 1 if v else 0
                out.append((known, dict(leaf[3])))
        return out

    # ------------------------------------------------------------ entry
    def run_body(self, body, args=None, subst=None, setup=None):
        """Evaluate `body` with symbolic parameters.  Reference parameters point to symbolic
        pointees mk("param", i).  `subst`: type arguments for a generic body."""
        COVERED.add(body.ident())
        st = State()
        mir = body.mir
        locs = {}
        for i in range(len(mir["locals"])):
            locs[i] = st.alloc()
        fr = Frame(body, mir, locs, None, 0)
        if subst:
            fr.subst = dict(subst)
        self.param_locs = {}
        if setup is not None:
            args = setup(self, st)      # may allocate locations and register them in self.param_locs
        st.frames.append(fr)
        n = mir["arg_count"]
        for i in range(1, n + 1):
            ty = F.norm_ty(mir["locals"][i]["ty"])
            if args is not None and args[i - 1] is not None:
                if ty.startswith("&") and tag(args[i - 1]) not in ("ref", "vref"):
                    pl = st.alloc(); st.store[pl] = args[i - 1]      # a value given for a by-reference parameter
                    st.store[locs[i]] = mk("ref", pl, ())
                else:
                    st.store[locs[i]] = args[i - 1]
            elif ty.startswith("&"):
                pl = st.alloc()
                st.store[pl] = mk("param", i - 1)
                self.param_locs[i - 1] = pl
                st.store[locs[i]] = mk("ref", pl, ())
            else:
                st.store[locs[i]] = mk("param", i - 1)
        self.nodes = 0
        return self.exec_block(st, 0)

    # ------------------------------------------------------------ places
    def load(self, st, loc, proj):
        if loc not in st.store:
            raise Unsupported("read of uninitialised location")
        v = st.store[loc]
        for k, e in enumerate(proj):
            v = self.project(st, v, e)
        return v

    def project(self, st, v, e):
        if e == "deref":
            if tag(v) == "ref":
                return self.load(st, v[1], v[2])
            if tag(v) == "vref":
                # a value reference names  v[1] projected by v[2]
                t = v[1]
                for e2 in v[2]:
                    t = self.project(st, t, e2)
                return t
            return mk("deref", v)
        etag = e[0]
        if etag == "f":
            i = e[1]
            if tag(v) == "agg":
                return v[2][i]
            if tag(v) == "carray":
                return self.carray_field(v, i)
            return mk("field", v, i)
        if etag == "downcast":
            if tag(v) == "agg":
                return v
            return mk("downcast", v, e[2])
        if etag == "idx":
            return self.index(v, e[1])
        if etag == "cidx":
            return self.index(v, mk_const("usize", e[1]))
        raise Unsupported("projection %r" % (e,))

    def carray_field(self, v, i):
        ty, hx = v[1], v[2]
        if ty == "TwoFloat":
            w = F.words_from_hex(hx)
            return mk_const("f64", w[i])
        m = re.match(r"^\((.*)\)$", ty)
        if m and all(p.strip() == "f64" for p in m.group(1).split(",")):
            w = F.words_from_hex(hx)
            return mk_const("f64", w[i])
        return mk("field", v, i)

    def index(self, v, idx):
        if tag(v) == "agg" and v[1][0] == "array" and is_const(idx):
            i = cint(idx)
            if i < len(v[2]):
                return v[2][i]
        if tag(v) == "carray" and is_const(idx):
            m = re.match(r"^\[(.*); (\d+)\]$", v[1])
            if m:
                ety, n = m.group(1), int(m.group(2))
                b = v[2]
                sz = len(b) // n
                i = cint(idx)
                if i < n:
                    return self.from_bytes(ety, b[i * sz:(i + 1) * sz])
        return mk("index", v, idx)

    def from_bytes(self, ty, hx, fields=None, fnptrs=None, base=0):
        """fnptrs: {byte offset in the whole constant: function item term}; base: offset of hx within the whole constant"""
        if fnptrs and (ty.startswith("fn(") or ty.startswith("for<") or ty.startswith("unsafe fn(") or ty.startswith("extern ")) and base in fnptrs:
            return fnptrs[base]
        if isinstance(fields, dict) and fields.get("array") and ty.startswith("[") and (fnptrs or fields.get("elem_fields")):
            m_ = re.match(r"^\[(.*); (\d+)\]$", ty)
            if m_:
                n_ = int(m_.group(2)); esz = int(fields["elem_size"]); ety = F.norm_ty(fields["elem_ty"])
                if (not ety.startswith("TwoFloat") and ety != "f64") or fnptrs:
                    return mk("agg", ("array",), tuple(self.from_bytes(ety, hx[2 * i * esz:2 * (i + 1) * esz], fields.get("elem_fields"), fnptrs, base + i * esz) for i in range(n_)))
        if isinstance(fields, dict):
            fields = None
        if fields and ty not in ("TwoFloat", "f64") and not ty.startswith("[") and not ty.startswith("core::ops::RangeInclusive<"):
            # a tuple / struct constant taken apart by the layout the compiler gave it
            parts = []
            for fd in fields:
                fty = F.norm_ty(fd["ty"]); o_ = 2 * int(fd["off"]); n_ = 2 * int(fd["size"])
                parts.append(self.from_bytes(fty, hx[o_:o_ + n_], fd.get("fields"), fnptrs, base + int(fd["off"])))
            if ty.startswith("("):
                return mk("agg", ("tuple",), tuple(parts))
            return mk("agg", ("adt", ty, 0, ty.split("::")[-1]), tuple(parts))
        if ty == "f64":
            return mk_const("f64", F.words_from_hex(hx)[0])
        if ty == "TwoFloat":
            w = F.words_from_hex(hx)
            return mk("agg", ("adt", "TwoFloat", 0, "TwoFloat"), (mk_const("f64", w[0]), mk_const("f64", w[1])))
        if (ty in INT_BITS or ty in ("bool", "char")) and len(hx) in (2, 4, 8, 16, 32):
            return mk_const(ty, int.from_bytes(bytes.fromhex(hx), "little"))
        m = re.match(r"^core::ops::RangeInclusive<(.+)>$", ty)
        if m:
            # a constant `lo..=hi`: the same value as RangeInclusive::new(lo, hi) (not yet iterated)
            ety = m.group(1)
            esz = {"f64": 8, "TwoFloat": 16}.get(ety) or (INT_BITS.get(ety, 0) // 8)
            if esz and len(hx) >= 4 * esz:
                lo = self.from_bytes(ety, hx[:2 * esz]); hi = self.from_bytes(ety, hx[2 * esz:4 * esz])
                return mk("call", "core::ops::RangeInclusive::<Idx>::new<%s>" % ety, lo, hi)
        # a private newtype around one field (`struct Table([TwoFloat; N]);`): the same bytes, one level of wrapping
        for sd in self.facts.structs:
            if F.norm_path(sd["path"]) == ty and len(sd.get("fields", [])) == 1 and sd["fields"][0].get("ty"):
                inner = self.from_bytes(F.norm_ty(sd["fields"][0]["ty"]), hx)
                return mk("agg", ("adt", ty, 0, ty.split("::")[-1]), (inner,))
        return mk("carray", ty, hx)

    def store_to(self, st, loc, proj, val):
        if not proj:
            st.store[loc] = val
            return
        # follow leading derefs through references
        cur = st.store.get(loc)
        e = proj[0]
        if e == "deref":
            if tag(cur) == "ref":
                return self.store_to(st, cur[1], tuple(cur[2]) + tuple(proj[1:]), val)
            raise Unsupported("store through non-reference")
        st.store[loc] = self.update(st, cur, proj, val)

    def update(self, st, cur, proj, val):
        if not proj:
            return val
        e = proj[0]
        if e == "deref":
            if tag(cur) == "ref":
                self.store_to(st, cur[1], tuple(cur[2]) + tuple(proj[1:]), val)
                return cur
            raise Unsupported("store through non-reference")
        if e[0] == "f":
            i = e[1]
            if cur is None:
                # partially initialised aggregate (tuple / struct built field by field)
                cur = mk("agg", ("partial",), ())
            if tag(cur) == "agg":
                items = list(cur[2])
                while len(items) <= i:
                    items.append(None)
                items[i] = self.update(st, items[i], proj[1:], val)
                return mk("agg", cur[1], tuple(items))
            # symbolic value: expand lazily to its fields (TwoFloat / pair)
            items = [mk("field", cur, 0), mk("field", cur, 1)]
            if i > 1:
                raise Unsupported("field store into symbolic value")
            items[i] = self.update(st, items[i], proj[1:], val)
            return mk("agg", ("expanded",), tuple(items))
        if e[0] == "downcast":
            return self.update(st, cur, proj[1:], val)
        if e[0] == "cidx":
            i = e[1]
            if tag(cur) == "agg" and cur[1][0] in ("array", "expanded") and i < len(cur[2]):
                items = list(cur[2])
                items[i] = self.update(st, items[i], proj[1:], val)
                return mk("agg", cur[1], tuple(items))
            if cur is not None and tag(cur) in ("havoc", "param") and i < 8:
                # an unknown small array: expand lazily to its elements
                n_ = i + 1
                m_ = re.match(r"^\[.*; (\d+)\]$", cur[2]) if tag(cur) == "havoc" and isinstance(cur[2], str) else None
                if m_:
                    n_ = max(n_, int(m_.group(1)))
                items = [mk("index", cur, mk_const("usize", k)) for k in range(n_)]
                items[i] = self.update(st, items[i], proj[1:], val)
                return mk("agg", ("array",), tuple(items))
            raise Unsupported("indexed store")
        raise Unsupported("store projection %r" % (e,))

    def conv_place(self, fr, p):
        proj = []
        for e in p["p"]:
            if e == "deref":
                proj.append("deref")
            elif "f" in e:
                proj.append(mk("f", e["f"]))
            elif "idx" in e:
                proj.append(("idxl", e["idx"]))
            elif "cidx" in e:
                if e.get("from_end"):
                    raise Unsupported("from_end index")
                proj.append(("cidx", e["cidx"]))
            elif "downcast" in e:
                proj.append(mk("downcast", e["downcast"], e.get("name")))
            else:
                raise Unsupported("projection %r" % (e,))
        return fr.locs[p["l"]], proj

    def read_place(self, st, fr, p):
        loc, proj = self.conv_place(fr, p)
        proj = tuple(("idx", self.load(st, fr.locs[e[1]], ())) if e[0] == "idxl" else e for e in proj)
        return self.load(st, loc, proj)

    def write_place(self, st, fr, p, val):
        loc, proj = self.conv_place(fr, p)
        proj = tuple(("idx", self.load(st, fr.locs[e[1]], ())) if e[0] == "idxl" else e for e in proj)
        proj = tuple(("cidx", cint(e[1])) if e != "deref" and e[0] == "idx" and is_const(e[1]) else e for e in proj)
        if any(e != "deref" and e[0] == "idx" for e in proj):
            raise Unsupported("indexed store")
        self.store_to(st, loc, proj, val)

    def ref_place(self, st, fr, p):
        """Evaluate &place to a reference value; reborrows collapse."""
        loc, proj = self.conv_place(fr, p)
        proj = [("idx", self.load(st, fr.locs[e[1]], ())) if e[0] == "idxl" else e for e in proj]
        # resolve derefs now so that the reference names the final location
        cur_loc, cur_proj = loc, []
        for e in proj:
            if e == "deref":
                v = self.load(st, cur_loc, tuple(cur_proj))
                if tag(v) == "ref":
                    cur_loc, cur_proj = v[1], list(v[2])
                elif tag(v) == "vref":
                    # reborrow of a value reference
                    return mk("vref", v[1], tuple(v[2]) + tuple(proj[proj.index(e) + 1:]))
                else:
                    # reference to something behind an opaque pointer: keep as a value reference
                    return mk("vref", mk("deref", v), tuple(proj[proj.index(e) + 1:]))
            else:
                cur_proj.append(e)
        return mk("ref", cur_loc, tuple(cur_proj))

    # ------------------------------------------------------------ operands
    def const_operand(self, st, fr, c):
        ty = F.norm_ty(c["ty"])
        if "fn" in c:
            f = c["fn"]
            return mk("fnitem", self.callee_name(f)[0])
        v = c.get("val")
        if "promoted" in c:
            pm = fr.body.promoted[c["promoted"]]
            return self.eval_promoted(st, fr, pm)
        if v is None and fr.subst.get("Self") and c.get("item"):
            # an associated constant of the trait, used in a provided method that was entered for a known Self
            trait_path, _, cname = F.norm_path(c["item"]).rpartition("::")
            selfty = F.norm_ty(fr.subst["Self"])
            for c2 in self.facts.consts:
                cx = c2.get("ctx") or {}
                if cx.get("name") == cname and F.norm_path(cx.get("trait", "")) == trait_path and F.norm_ty(cx.get("self_ty", "")) == selfty and c2.get("val") is not None:
                    return self.const_operand(st, fr, {"ty": c2["ty"], "val": c2["val"], "item": c2["path"]})
        if v is None and c.get("param") and fr.subst.get(c["param"]) is not None and ty in INT_BITS:
            # a const generic parameter of an inlined generic helper: the instance's argument (`iterate::<9>`)
            mcg = re.match(r"^\s*(-?\d+)(?:_?[iu](?:8|16|32|64|128|size))?\s*$", str(fr.subst[c["param"]]))
            if mcg:
                return mk_const(ty, from_signed(ty, int(mcg.group(1))))
        if v is None:
            raise Unsupported("unevaluated constant %s" % c.get("item"))
        k = v.get("k")
        if k == "scalar":
            return mk_const(ty, int(v["bits"], 16))
        if k == "zst":
            return mk("unit") if ty == "()" else mk("zst", canon_generic(ty))
        if k == "bytes" and "hex" in v:
            fp_ = None
            if v.get("fnptrs"):
                fp_ = {}
                for e_ in v["fnptrs"]:
                    lb_ = self.facts.by_key.get(e_["key"]) if e_.get("local") else None
                    if lb_ is None and F.norm_path(e_["def"]).endswith("FnOnce::call_once") and e_.get("args"):
                        # the call_once shim of a non-capturing closure coerced to a fn pointer: the closure itself
                        mk_ = re.search(r"\{closure@(KEY:[^}]+)\}", str(e_["args"][0]))
                        if mk_:
                            lb_ = self.facts.closure_at.get(mk_.group(1))
                    if lb_ is not None:
                        nm_ = lb_.ident()
                    else:
                        ga_ = [canon_generic(a_) for a_ in e_.get("args", [])]
                        nm_ = F.norm_path(e_["def"]) + (("<" + ",".join(ga_) + ">") if ga_ else "")
                    fp_[int(e_["off"])] = mk("fnitem", nm_)
            return self.from_bytes(ty, v["hex"], v.get("fields"), fp_)
        if k == "slice" and "str" in v:
            return mk("str", v["str"])
        if k == "strs" and "items" in v:
            return mk("agg", ("array",), tuple(mk("str", x) for x in v["items"]))
        if k == "ptr" and "hex" in v:
            inner = self.from_bytes(F.norm_ty(v["pointee_ty"]), v["hex"])
            loc = st.alloc()
            st.store[loc] = inner
            return mk("ref", loc, ())
        if k in ("ptr", "bytes", "slice"):
            return mk("opaque_const", ty, c.get("item") or "")
        raise Unsupported("constant of type %s" % ty)

    def eval_promoted(self, st, fr, pm):
        # promoted bodies are straight-line: evaluate in a sub-frame sharing the store
        locs = {i: st.alloc() for i in range(len(pm["locals"]))}
        sub = Frame(fr.body, pm, locs, None, fr.depth)
        bi = 0
        while True:
            b = pm["blocks"][bi]
            for s in b["s"]:
                if "lhs" in s:
                    self.assign(st, sub, s)
            t = b["t"]
            if t["k"] == "ret":
                return st.store[locs[0]]
            if t["k"] == "goto":
                bi = t["t"]; continue
            if t["k"] == "call" and "f" in t and t["t"] is not None:
                args = [self.operand(st, sub, a) for a in t["args"]]
                name, callee, r = self.callee_name(t["f"])
                pv = self.primitive_foreign(st, name, r, args) if callee is None else None
                if pv is None:
                    pv = mk("call", name, *[self.deref_value(st, a) for a in args])
                self.write_place(st, sub, t["dest"], pv)
                bi = t["t"]; continue
            raise Unsupported("promoted with terminator %s" % t["k"])

    def operand(self, st, fr, o):
        if "copy" in o:
            return self.read_place(st, fr, o["copy"])
        if "move" in o:
            return self.read_place(st, fr, o["move"])
        if "const" in o:
            return self.const_operand(st, fr, o["const"])
        raise Unsupported("operand")

    # ------------------------------------------------------------ rvalues
    def binop(self, op, ty, a, b):
        ty = F.norm_ty(ty)
        if ty == "f64" or ty == "f32":
            m = {"Add": "add", "Sub": "sub", "Mul": "mul", "Div": "div", "Rem": "rem"}
            if op in m:
                if ty == "f64" and is_const(a) and is_const(b) and op != "Rem":
                    # the same IEEE operation rustc would emit, evaluated on two literals
                    x, y = F.f64_from_bits(cint(a)), F.f64_from_bits(cint(b))
                    try:
                        r = {"Add": x + y, "Sub": x - y, "Mul": x * y, "Div": (x / y) if y != 0 else None}[op]
                        if op == "Div" and y == 0 and x != 0 and x == x:
                            import math as _m      # a non-zero number over a signed zero: the infinity with the product of the signs
                            r = _m.copysign(float("inf"), _m.copysign(1.0, x) * _m.copysign(1.0, y))
                    except OverflowError:
                        r = None
                    if r is not None and r == r:
                        return f64c(r)
                return mk("f", m[op], a, b)
            c = {"Lt": "lt", "Le": "le", "Gt": "gt", "Ge": "ge", "Eq": "eq", "Ne": "ne"}
            if op in c:
                if ty == "f64":
                    r_ = self.float_predicate(c[op], a, b)
                    if r_ is not None:
                        return r_
                return mk("cmp", c[op], ty, a, b)
            raise Unsupported("float binop %s" % op)
        c = {"Lt": "lt", "Le": "le", "Gt": "gt", "Ge": "ge", "Eq": "eq", "Ne": "ne"}
        if op in c:
            if is_const(a) and is_const(b) and ty in INT_BITS:
                x, y = to_signed(ty, cint(a)), to_signed(ty, cint(b))
                r = {"lt": x < y, "le": x <= y, "gt": x > y, "ge": x >= y, "eq": x == y, "ne": x != y}[c[op]]
                return mk_const("bool", int(r))
            if is_const(a) and is_const(b) and ty in ("bool", "char"):
                x, y = cint(a), cint(b)
                r = {"lt": x < y, "le": x <= y, "gt": x > y, "ge": x >= y, "eq": x == y, "ne": x != y}[c[op]]
                return mk_const("bool", int(r))
            if ty == "u64" and c[op] in ("eq", "ne"):
                r_ = self.sign_bit_test(c[op], a, b)
                if r_ is not None:
                    return r_
            return mk("cmp", c[op], ty, a, b)
        base = op.replace("WithOverflow", "").replace("Unchecked", "")
        with_ovf = op.endswith("WithOverflow")
        if base in ("Shl", "Shr") and is_const(b) and b[1] in INT_BITS:
            # the shift amount's own integer type is irrelevant to the result: canonical u32
            sv = to_signed(b[1], cint(b))
            if 0 <= sv < 256:
                b = mk_const("u32", sv)
        if ty in INT_BITS and is_const(b) and not is_const(a):
            cb = to_signed(ty, cint(b))
            nf = None
            if base == "Rem" and ty.startswith("u") and cb > 0 and cb & (cb - 1) == 0 and not with_ovf:
                # x % 2^k == x & (2^k - 1) for unsigned x
                return self.binop("BitAnd", ty, a, mk_const(ty, cb - 1))
            if base == "Shr" and ty.startswith("u") and not with_ovf and tag(a) == "i" and a[2] == ty and is_const(a[4]):
                n_ = INT_BITS[ty]; sh = cint(b)
                if a[1] == "shl" and 0 <= cint(a[4]) <= sh < n_:
                    # (x << l) >> r  ==  (x >> (r - l)) & (2^(n - r) - 1)
                    inner = self.binop("Shr", ty, a[3], mk_const("u32", sh - cint(a[4])))
                    return self.binop("BitAnd", ty, inner, mk_const(ty, (1 << (n_ - sh)) - 1))
                if a[1] == "bitand" and 0 <= sh < n_:
                    # (x & m) >> r  ==  (x >> r) & (m >> r)
                    return self.binop("BitAnd", ty, self.binop("Shr", ty, a[3], mk_const("u32", sh)), mk_const(ty, cint(a[4]) >> sh))
            if base == "Shr" and cb == 0 and not with_ovf:
                return a
            if base in ("BitAnd", "BitOr", "BitXor") and tag(a) == "i" and a[1] == base.lower() and a[2] == ty and (is_const(a[4]) or is_const(a[3])):
                # (x & c1) & c2 == x & (c1 & c2), likewise | and ^
                x_, c1_ = (a[3], a[4]) if is_const(a[4]) else (a[4], a[3])
                m_ = (1 << INT_BITS[ty]) - 1
                cc = {"BitAnd": cint(c1_) & cint(b), "BitOr": cint(c1_) | cint(b), "BitXor": cint(c1_) ^ cint(b)}[base] & m_
                return self.binop(base, ty, x_, mk_const(ty, cc))
            if base == "Div" and ty.startswith("u") and cb > 1 and cb & (cb - 1) == 0 and not with_ovf:
                # x / 2^k == x >> k for unsigned x
                return self.binop("Shr", ty, a, mk_const("u32", cb.bit_length() - 1))
            if base in ("Add", "Sub") and tag(a) == "i" and a[1] in ("add", "sub") and a[2] == ty and is_const(a[4]):
                # (x +- c1) +- c2 == x +- (c1 +- c2): equal in wrapping arithmetic, hence whenever neither form overflows
                c1 = to_signed(ty, cint(a[4])) * (1 if a[1] == "add" else -1)
                c2 = cb * (1 if base == "Add" else -1)
                tot = c1 + c2
                if in_range(ty, abs(tot)):
                    nf = a[3] if tot == 0 else mk("i", "add" if tot > 0 else "sub", ty, a[3], mk_const(ty, from_signed(ty, abs(tot))))
            if nf is not None:
                if with_ovf:
                    return mk("agg", ("tuple",), (nf, mk("i", base.lower() + "_ovf", ty, a, b)))
                return nf
        res = None; ovf = None
        if is_const(a) and is_const(b) and ty in INT_BITS:
            x, y = to_signed(ty, cint(a)), to_signed(ty, cint(b))
            r = None
            if base == "Add": r = x + y
            elif base == "Sub": r = x - y
            elif base == "Mul": r = x * y
            elif base == "BitAnd": r = x & y
            elif base == "BitOr": r = x | y
            elif base == "BitXor": r = x ^ y
            elif base == "Shl" and 0 <= y < INT_BITS[ty]: r = x << y
            elif base == "Shr" and 0 <= y < INT_BITS[ty]: r = x >> y
            elif base == "Div" and y != 0: r = abs(x) // abs(y) * (1 if (x < 0) == (y < 0) else -1)
            elif base == "Rem" and y != 0: r = abs(x) % abs(y) * (1 if x >= 0 else -1)
            if r is not None:
                ovf = mk_const("bool", int(not in_range(ty, r))) if base in ("Add", "Sub", "Mul") else mk_const("bool", 0)
                res = mk_const(ty, from_signed(ty, r))
        if res is None:
            if ty == "bool" and is_const(a) and is_const(b) and base in ("BitAnd", "BitOr", "BitXor"):
                x, y = cint(a), cint(b)
                res = mk_const("bool", {"BitAnd": x & y, "BitOr": x | y, "BitXor": x ^ y}[base])
            elif ty == "bool" and base in ("BitAnd", "BitOr") and (is_const(a) or is_const(b)):
                k, o = (a, b) if is_const(a) else (b, a)
                if base == "BitAnd":
                    res = o if cint(k) else mk_const("bool", 0)
                else:
                    res = mk_const("bool", 1) if cint(k) else o
            else:
                res = mk("i", base.lower(), ty, a, b)
                ovf = mk("i", base.lower() + "_ovf", ty, a, b)
        if with_ovf:
            return mk("agg", ("tuple",), (res, ovf))
        return res

    def float_predicate(self, op, a, b):
        """exact re-spellings of the f64 predicates: x != x, |x| == inf, |x| < inf, copysign(1, x) < 0"""
        NAN_ = "core::f64::<impl f64>::is_nan"; INF_ = "core::f64::<impl f64>::is_infinite"; FIN_ = "core::f64::<impl f64>::is_finite"
        if a is b and op in ("eq", "ne"):
            n_ = mk("call", NAN_, a)
            return n_ if op == "ne" else mk("not", n_)
        def is_abs(t):
            return tag(t) == "call" and t[1] == "libm::fabs" and len(t) == 3
        def is_inf(t):
            return is_const(t) and t[1] == "f64" and cint(t) == 0x7FF0000000000000
        def is_zero(t):
            return is_const(t) and t[1] == "f64" and cint(t) in (0, 1 << 63)
        for x, k, o in ((a, b, op), (b, a, {"lt": "gt", "gt": "lt", "le": "ge", "ge": "le", "eq": "eq", "ne": "ne"}[op])):
            if is_abs(x) and is_inf(k):
                if o == "eq": return mk("call", INF_, x[2])
                if o == "lt": return mk("call", FIN_, x[2])
            if is_abs(x) and is_zero(k) and o in ("eq", "ne"):
                return mk("cmp", o, "f64", x[2], f64c(0.0))      # |x| == 0  is  x == 0
            if tag(x) == "f" and x[1] == "sub" and x[2] is x[3] and is_zero(k) and o in ("eq", "ne"):
                fin_ = mk("call", FIN_, x[2])                      # x - x is 0 for a finite x and NaN otherwise
                return fin_ if o == "eq" else mk("not", fin_)
            # copysign(c, x) against zero, c a positive constant: the sign bit of x
            if tag(x) == "call" and x[1] == "libm::copysign" and len(x) == 4 and is_const(x[2]) and is_const(k) and k[1] == "f64" and cint(k) in (0, 1 << 63) \
                    and 0 < cint(x[2]) < 0x7FF0000000000000:
                neg_ = mk("call", "core::f64::<impl f64>::is_sign_negative", x[3])
                if o == "lt": return neg_
                if o == "gt": return mk("not", neg_)
        return None

    def sign_bit_test(self, op, a, b):
        """(x.to_bits() >> 63) == 1, x.to_bits() & (1 << 63) != 0 and the like: the sign bit of x"""
        def sign_of(t):
            """bool term: bit 63 of the u64 term t is set (t built from to_bits(..) with |, ^, &)"""
            if tag(t) == "call" and t[1] == "core::f64::<impl f64>::to_bits" and len(t) == 3:
                return mk("call", "core::f64::<impl f64>::is_sign_negative", t[2])
            if tag(t) == "i" and t[2] == "u64" and t[1] in ("bitor", "bitxor", "bitand") and not is_const(t[3]) and not is_const(t[4]):
                p_, q_ = sign_of(t[3]), sign_of(t[4])
                if p_ is not None and q_ is not None:
                    return mk("cmp", "ne", "bool", p_, q_) if t[1] == "bitxor" else mk("i", t[1], "bool", p_, q_)
            return None
        bits_of = sign_of
        for x, k in ((a, b), (b, a)):
            if not is_const(k):
                continue
            kv = cint(k); neg_ = None
            if tag(x) == "i" and x[1] == "shr" and is_const(x[4]) and cint(x[4]) == 63 and kv in (0, 1) and sign_of(x[3]) is not None:
                neg_ = (sign_of(x[3]), kv == 1)
            if tag(x) == "i" and x[1] == "bitand" and kv in (0, 1 << 63):
                for u, m in ((x[3], x[4]), (x[4], x[3])):
                    if is_const(m) and cint(m) == 1 << 63 and sign_of(u) is not None:
                        neg_ = (sign_of(u), kv != 0)
            if neg_ is not None:
                t_, when_set = neg_
                pos = (op == "eq") == when_set
                return t_ if pos else mk("not", t_)
        return None

    def unop(self, op, ty, a):
        ty = F.norm_ty(ty)
        if op == "Neg":
            if ty in ("f64", "f32"):
                if is_const(a):
                    return mk_const(ty, cint(a) ^ (1 << 63))
                return mk("f", "neg", a)
            if is_const(a) and ty in INT_BITS:
                return mk_const(ty, from_signed(ty, -to_signed(ty, cint(a))))
            return mk("i", "neg", ty, a)
        if op == "Not":
            if ty == "bool":
                if is_const(a):
                    return mk_const("bool", 1 - cint(a))
                if tag(a) == "not":
                    return a[1]
                return mk("not", a)
            if is_const(a) and ty in INT_BITS:
                return mk_const(ty, from_signed(ty, ~to_signed(ty, cint(a))))
            return mk("i", "not", ty, a)
        if op == "PtrMetadata":
            return mk("call", "len", a)
        raise Unsupported("unop %s" % op)

    def cast(self, kind, frm, to, a):
        frm = F.norm_ty(frm); to = F.norm_ty(to)
        if kind.startswith("PointerCoercion") or kind in ("PtrToPtr", "Transmute") and False:
            return a
        if kind.startswith("PointerCoercion"):
            return a
        if kind == "IntToInt" and is_const(a) and frm in INT_BITS and to in INT_BITS:
            return mk_const(to, from_signed(to, to_signed(frm, cint(a))))
        if kind == "IntToInt" and is_const(a) and frm == "bool" and to in INT_BITS:
            return mk_const(to, cint(a))
        if kind == "IntToFloat" and is_const(a) and frm in INT_BITS and to == "f64":
            import struct
            v = to_signed(frm, cint(a))
            # Python's int -> float conversion is correctly rounded (ties to even), like Rust's `as f64`
            return mk_const("f64", struct.unpack("<Q", struct.pack("<d", float(v)))[0])
        if kind == "IntToInt" and frm in INT_BITS and to in INT_BITS and frm == to:
            return a
        if kind == "IntToInt" and tag(a) == "cast" and a[1] == "IntToInt" and a[2] in INT_BITS and a[3] == frm and frm in INT_BITS and to in INT_BITS and lossless_int(a[2], frm):
            # widening first changes nothing: (x as B) as C == x as C when B holds every value of x's type
            return self.cast("IntToInt", a[2], to, a[4])
        return mk("cast", kind, frm, to, a)

    def rvalue(self, st, fr, rv):
        if "use" in rv:
            return self.operand(st, fr, rv["use"])
        if "ref" in rv:
            return self.ref_place(st, fr, rv["ref"])
        if "rawptr" in rv:
            return self.ref_place(st, fr, rv["rawptr"])
        if "bin" in rv:
            a = self.operand(st, fr, rv["a"]); b = self.operand(st, fr, rv["b"])
            return self.binop(rv["bin"], rv["ty"], a, b)
        if "un" in rv:
            return self.unop(rv["un"], rv["ty"], self.operand(st, fr, rv["a"]))
        if "cast" in rv:
            return self.cast(rv["cast"], rv["from"], rv["ty"], self.operand(st, fr, rv["a"]))
        if "agg" in rv:
            k = rv["agg"]
            ops = tuple(self.operand(st, fr, o) for o in rv["ops"])
            if k == "tuple":
                if not ops:
                    return mk("unit")
                return mk("agg", ("tuple",), ops)
            if "adt" in k:
                return mk("agg", ("adt", F.norm_path(k["adt"]), k["variant_idx"], k["variant"]), ops)
            if "array" in k:
                return mk("agg", ("array",), ops)
            if "closure" in k:
                self.closure_subst[k["key"]] = fr.subst
                return mk("agg", ("closure", k["key"]), ops)
            raise Unsupported("aggregate %r" % (k,))
        if "discr" in rv:
            v = self.read_place(st, fr, rv["discr"])
            if tag(v) == "agg" and v[1][0] == "adt":
                return mk_const("isize", v[1][2])
            d_ = mk("discr", v)
            pl_ = rv["discr"]
            if not pl_["p"]:
                self.discr_ty[d_] = strip_ref(F.norm_ty(fr.mir["locals"][pl_["l"]]["ty"]))
            return d_
        if "repeat" in rv:
            m = re.match(r"^(\d+)(_usize)?$", str(rv.get("n", "")).strip())
            if m and int(m.group(1)) <= 64:
                el = self.operand(st, fr, rv["repeat"])
                return mk("agg", ("array",), tuple(el for _ in range(int(m.group(1)))))
            raise Unsupported("repeat")
        raise Unsupported("rvalue %r" % (list(rv.keys()),))

    def assign(self, st, fr, s):
        val = self.rvalue(st, fr, s["rv"])
        self.write_place(st, fr, s["lhs"], val)

    # ------------------------------------------------------------ calls
    def callee_name(self, f):
        """(canonical name, local Body or None, resolved record)"""
        r = f.get("res")
        if r is None:
            name = F.norm_path(f["def"]) + "<" + ",".join(canon_generic(a) for a in f.get("args", [])) + ">"
            return name, None, None
        if r.get("local"):
            b = self.facts.by_key.get(r["key"])
            if b is not None:
                return b.ident(), b, r
        ga = [canon_generic(a) for a in r.get("args", [])]
        name = F.norm_path(r["def"]) + (("<" + ",".join(ga) + ">") if ga else "")
        return name, None, r

    def resolve_generic(self, fr, f):
        """a trait call that the compiler could not resolve inside a generic helper, re-resolved with the
        type arguments of the inlined instance: local impls by identity, Into through its blanket impl"""
        args = [subst_ty(a, fr.subst) for a in f.get("args", [])]
        if args == list(f.get("args", [])) or not args:
            return f
        d = F.norm_path(f["def"])
        trait, _, meth = d.rpartition("::")
        if re.match(r"^core::ops(::function)?::Fn(Once|Mut)?::call(_once|_mut)?$", d):
            # calling a value of a known closure / fn-item type
            m = re.match(r"^(?:&(?:mut )?)*\{closure@(KEY:[^}]+)\}", args[0].strip())
            if m:
                cb = self.facts.closure_at.get(m.group(1))
                if cb is not None:
                    return {"def": f["def"], "args": args, "res": {"def": cb.path, "key": cb.key, "args": [], "local": True}}
            a0 = args[0].strip()
            mk_ = re.search(r"#KEY:(.+)$", a0)
            if mk_:
                b = self.facts.by_key.get(mk_.group(1))
                if b is not None:
                    return {"def": f["def"], "args": args, "res": {"def": b.path, "key": b.key, "args": [], "local": True, "fnitem": True}}
            md_ = re.search(r"#DEF:(.+)$", a0)
            a0 = re.sub(r"#(KEY|DEF):.*$", "", a0)
            if md_ and not re.search(r"<[A-Z]\w? as |<[A-Z]>|\b[A-Z]\b", F.norm_path(md_.group(1))):
                # a concrete foreign function (blanket impls such as `<T as Into<U>>::into` need their type arguments: below)
                d2 = md_.group(1)
                return {"def": d2, "args": [], "spread": True, "res": {"def": d2, "args": [], "local": False}}
            m = re.match(r"^fn\(.*\{(.+)\}$", a0)
            if m:
                inner = F.norm_path(m.group(1))
                b = self.facts.get(inner)
                if b is None and inner.startswith("<") is False:
                    b = self.facts.get("fn:" + inner.split("::")[-1]) if "::" in inner else None
                if b is not None:
                    return {"def": f["def"], "args": args, "res": {"def": b.path, "key": b.key, "args": [], "local": True, "fnitem": True}}
                mi = re.match(r"^<(.+) as core::convert::Into<(.+)>>::into$", inner)
                if mi:
                    return {"def": inner, "args": [mi.group(1), mi.group(2)], "spread": True,
                            "res": {"def": "<T as core::convert::Into<U>>::into", "args": [mi.group(1), mi.group(2)], "local": False}}
                mf = re.match(r"^<(\w+) as core::convert::From<(\w+)>>::from$", inner)
                if mf and (mf.group(1) in INT_BITS or mf.group(1) == "f64") and (mf.group(2) in INT_BITS or mf.group(2) == "f32"):
                    d2 = "core::convert::num::<impl core::convert::From<%s> for %s>::from" % (mf.group(2), mf.group(1))
                    return {"def": d2, "args": [], "spread": True, "res": {"def": d2, "args": [], "local": False}}
                return {"def": inner, "args": [], "spread": True, "res": None}
            return dict(f, args=args)
        selfty = canon_generic(args[0]); targs = [canon_generic(a) for a in args[1:]]
        if d == "core::convert::Into::into" and len(args) == 2:
            return {"def": f["def"], "args": args, "res": {"def": "<T as core::convert::Into<U>>::into", "args": args, "local": False}}
        if d in ("core::borrow::Borrow::borrow", "core::borrow::BorrowMut::borrow_mut") and len(args) == 2:
            # the identity impls of core: `T: Borrow<T>`, `&T: Borrow<T>`, `&mut T: Borrow<T>`
            bare = re.sub(r"^&(mut )?", "", selfty)
            if selfty == targs[0]:
                return {"def": f["def"], "args": args, "res": {"def": "<T as core::borrow::Borrow<T>>::borrow", "args": args[:1], "local": False}}
            if bare == targs[0]:
                return {"def": f["def"], "args": args, "res": {"def": "<&T as core::borrow::Borrow<T>>::borrow", "args": args[:1], "local": False}}
        if d == "core::convert::From::from" and len(args) == 2 and selfty == targs[0]:
            return {"def": f["def"], "args": args, "res": {"def": "<T as core::convert::From<T>>::from", "args": args[:1], "local": False}}
        for n in range(len(targs), -1, -1):
            ident = ("<%s as %s<%s>>::%s" % (selfty, trait, ",".join(targs[:n]), meth)) if n else ("<%s as %s>::%s" % (selfty, trait, meth))
            b = self.facts.get(ident)
            if b is not None:
                return {"def": f["def"], "args": args, "res": {"def": b.path, "key": b.key, "args": [], "local": True}}
        return dict(f, args=args)

    def deref_value(self, st, v, depth=0):
        """Replace references by the values they point to (for pure opaque calls)."""
        if tag(v) == "ref":
            return self.deref_value(st, self.load(st, v[1], v[2]), depth + 1)
        if tag(v) == "vref":
            t = v[1]
            for e in v[2]:
                t = self.project(st, t, e)
            return t
        if tag(v) == "agg":
            return mk("agg", v[1], tuple(self.deref_value(st, x, depth + 1) if x is not None else None for x in v[2]))
        return v

    def transparent_foreign(self, st, fr, name, r, args, t):
        """Foreign wrappers that are modelled exactly.  Returns (handled, value)."""
        base = F.norm_path(r["def"]) if r is not None else name
        # <T as Into<U>>::into  ==>  <U as From<T>>::from
        if base == "<T as core::convert::Into<U>>::into" and r is not None:
            T, U = [canon_generic(a) for a in r["args"][:2]]
            ident = "<%s as core::convert::From<%s>>::from" % (U, T)
            b = self.facts.get(ident)
            if b is not None:
                return ("inline", b)
            if T == U:
                return ("value", args[0])
            if T in INT_BITS and U in INT_BITS:
                # the integer From impls of core are the lossless `as` conversions
                return ("value", self.cast("IntToInt", T, U, self.deref_value(st, args[0])))
            return ("value", mk("call", "From<%s> for %s" % (T, U), self.deref_value(st, args[0])))
        if base == "<T as core::convert::From<T>>::from":
            return ("value", args[0])
        if base in ("<T as core::borrow::Borrow<T>>::borrow", "<T as core::borrow::BorrowMut<T>>::borrow_mut") and len(args) == 1:
            return ("value", args[0])       # &T -> &T
        if base in ("<&T as core::borrow::Borrow<T>>::borrow", "<&mut T as core::borrow::Borrow<T>>::borrow", "<&mut T as core::borrow::BorrowMut<T>>::borrow_mut") \
                and len(args) == 1 and tag(args[0]) == "ref":
            inner = self.load(st, args[0][1], args[0][2])      # &&T -> &T
            if tag(inner) == "ref":
                return ("value", inner)
        if base == "<T as core::convert::TryInto<U>>::try_into" and r is not None:
            T, U = [canon_generic(a) for a in r["args"][:2]]
            ident = "<%s as core::convert::TryFrom<%s>>::try_from" % (U, T)
            b = self.facts.get(ident)
            if b is not None:
                return ("inline", b)
        if base in ("core::clone::Clone::clone", "<T as core::clone::Clone>::clone") or base.endswith("as core::clone::Clone>::clone"):
            return ("value", self.deref_value(st, args[0]))
        return None

    _ARITH = re.compile(r"^<&?f64 as core::ops::(Add|Sub|Mul|Div|Rem)<&?f64>>::(add|sub|mul|div|rem)$")
    _NEG = re.compile(r"^<&?f64 as core::ops::Neg>::neg$")
    _CMP = re.compile(r"^core::cmp::impls::<impl core::cmp::Partial(Ord|Eq) for f64>::(lt|le|gt|ge|eq|ne)$")
    FMA_NAMES = ("core::f64::<impl f64>::mul_add", "libm::fma", "libm::math::fma", "libm::math::fma::fma")

    def concrete_loop(self, st, fr, head):
        """a loop driven by a concrete slice iterator held in a local (then it is unrolled, not havoc'd)"""
        cs, assigned, through = self.loop_info(fr.mir)[head]
        range_next = False
        for bi in cs:
            t = fr.mir["blocks"][bi]["t"]
            if t["k"] == "call" and "f" in t:
                d = F.norm_path(((t["f"].get("res") or t["f"]).get("def", "")))
                if d.endswith("core::ops::Range<A>>::next"):
                    range_next = True
        for l in range(len(fr.mir["locals"])):
            v = st.store.get(fr.locs[l])
            if tag(v) == "sliceiter":
                return True
            if range_next and const_range(v) is not None and "Range<" in fr.mir["locals"][l]["ty"]:
                return True
        return self.counter_loop(st, fr, head)

    def counter_loop(self, st, fr, head):
        """every branch inside the loop tests locals that are constant on entry and are only combined with constants and with
        one another inside it (a counter): the trip count is concrete and the loop is unrolled, not havoc'd"""
        cs, assigned, through = self.loop_info(fr.mir)[head]
        blocks = fr.mir["blocks"]
        def root(op):
            if "const" in op:
                return None
            pl = op.get("copy") or op.get("move")
            if pl is None or any(e == "deref" or (isinstance(e, dict) and ("idx" in e or "cidx" in e)) for e in pl["p"]):
                return -1
            return pl["l"]
        def constish(v):
            return v is None or is_const(v) or (tag(v) == "agg" and all(x is not None and constish(x) for x in v[2]))
        conc = {l for l in assigned if constish(st.store.get(fr.locs[l]))}
        changed = True
        while changed:
            changed = False
            for bi in cs:
                for s_ in blocks[bi]["s"]:
                    if "lhs" not in s_ or s_["lhs"]["l"] not in conc:
                        continue
                    rv = s_["rv"]
                    ops = [rv[k_] for k_ in ("use", "a", "b") if isinstance(rv.get(k_), dict)]
                    ok = not s_["lhs"]["p"] and any(k_ in rv for k_ in ("use", "bin", "un", "cast")) and all(root(o) is None or root(o) in conc for o in ops)
                    if not ok:
                        conc.discard(s_["lhs"]["l"]); changed = True
                t = blocks[bi]["t"]
                if t["k"] == "call" and t["dest"]["l"] in conc:
                    conc.discard(t["dest"]["l"]); changed = True
        has_exit = False
        for bi in cs:
            t = blocks[bi]["t"]
            if t["k"] == "switch":
                r_ = root(t["d"])
                if r_ is None:
                    continue
                if r_ not in conc:
                    return False
                if any(x not in cs for x in list(t["targets"]) + [t["otherwise"]]):
                    has_exit = True
        return has_exit

    def slice_view(self, st, v):
        """(carray, lo, hi) of a constant table or constant-range slice of one; (array, 0, n) of a local array value"""
        from . import idioms
        v = self.deref_value(st, v)
        if tag(v) == "agg" and v[1][0] == "array" and all(x is not None for x in v[2]):
            return (v, 0, len(v[2]))
        return idioms.slice_of(v)

    def iterator_foreign(self, st, base, r, args, raw_args):
        """Concrete model of slice iteration over constant tables: iter / rev / into_iter / next / fold /
        unwrap.  Returns a value or None."""
        if base.startswith("core::slice::<impl [T]>::iter") and len(args) == 1:
            sl = self.slice_view(st, args[0])
            if sl is not None:
                if tag(sl[0]) == "carray":
                    self.iterated.append(sl)
                return mk("sliceiter", sl[0], sl[1], sl[2], 0)
            return None
        if (base.startswith("core::slice::<impl [T]>::split_last") or base.startswith("core::slice::<impl [T]>::split_first")) and len(args) == 1:
            sl = self.slice_view(st, args[0])
            if sl is not None and sl[2] - sl[1] >= 1:
                from . import idioms
                carr, lo, hi = sl
                last = "split_last" in base
                el = self.index(carr, mk_const("usize", hi - 1 if last else lo))
                l1 = st.alloc(); st.store[l1] = el
                nlo, nhi = (lo, hi - 1) if last else (lo + 1, hi)
                rng = mk("agg", ("adt", "core::ops::Range", 0, "Range"), (mk_const("usize", nlo), mk_const("usize", nhi)))
                l2 = st.alloc(); st.store[l2] = mk("deref", mk("call", idioms.INDEX, carr, rng))
                return mk("agg", ("adt", "core::option::Option", 1, "Some"), (mk("agg", ("tuple",), (mk("ref", l1, ()), mk("ref", l2, ()))),))
            return None
        a0 = self.deref_value(st, args[0]) if args else None
        if base.startswith("core::iter::Iterator::zip") and len(args) == 2 and tag(a0) == "sliceiter":
            b0 = self.deref_value(st, args[1])
            if tag(b0) == "sliceiter":
                return mk("zipiter", a0, b0)
            sl = self.slice_view(st, args[1])
            if sl is not None:
                self.iterated.append(sl)
                return mk("zipiter", a0, mk("sliceiter", sl[0], sl[1], sl[2], 0))
            return None
        if tag(a0) == "zipiter":
            za, zb = a0[1], a0[2]
            na, nb = za[3] - za[2], zb[3] - zb[2]
            def front(it):
                carr, lo, hi, rev = it[1], it[2], it[3], it[4]
                idx = hi - 1 if rev else lo
                rest = mk("sliceiter", carr, lo, hi - 1, rev) if rev else mk("sliceiter", carr, lo + 1, hi, rev)
                return self.index(carr, mk_const("usize", idx)), rest
            if base.startswith("core::iter::Iterator::rev") and len(args) == 1:
                if na != nb:
                    return None      # reversal of a zip of unequal lengths trims the longer one first: not modelled
                return mk("zipiter", mk("sliceiter", za[1], za[2], za[3], 1 - za[4]), mk("sliceiter", zb[1], zb[2], zb[3], 1 - zb[4]))
            if base.endswith("IntoIterator>::into_iter") or base.startswith("core::iter::IntoIterator::into_iter") or "IntoIterator for I>::into_iter" in base:
                return a0
            if base.endswith("Iterator>::next") or base.startswith("core::iter::Iterator::next"):
                ra = raw_args[0]
                if tag(ra) != "ref":
                    return None
                if na <= 0 or nb <= 0:
                    return mk("agg", ("adt", "core::option::Option", 0, "None"), ())
                ea, ra2 = front(za); eb, rb2 = front(zb)
                self.store_to(st, ra[1], tuple(ra[2]), mk("zipiter", ra2, rb2))
                l1 = st.alloc(); st.store[l1] = ea
                l2 = st.alloc(); st.store[l2] = eb
                return mk("agg", ("adt", "core::option::Option", 1, "Some"), (mk("agg", ("tuple",), (mk("ref", l1, ()), mk("ref", l2, ()))),))
            is_rf = base.endswith("Iterator>::rfold") or base.startswith("core::iter::DoubleEndedIterator::rfold")
            if (base.endswith("Iterator>::fold") or base.startswith("core::iter::Iterator::fold") or is_rf) and len(args) == 3:
                if is_rf:
                    if na != nb:
                        return None
                    za = mk("sliceiter", za[1], za[2], za[3], 1 - za[4]); zb = mk("sliceiter", zb[1], zb[2], zb[3], 1 - zb[4])
                clo = self.deref_value(st, args[2])
                if tag(clo) != "agg" or clo[1][0] != "closure":
                    return None
                cb = self.facts.by_key.get(clo[1][1])
                if cb is None:
                    return None
                sub = Exec(self.facts, self.policy, max_nodes=2000)
                leaf = sub.run_body(cb)
                if leaf[0] != "leaf" or leaf[2]:
                    return None
                acc = self.deref_value(st, args[1])
                for _ in range(min(za[3] - za[2], zb[3] - zb[2])):
                    ea, za = front(za); eb, zb = front(zb)
                    acc = _subst_closure(leaf[1], clo, acc, mk("agg", ("tuple",), (ea, eb)))
                return acc
            return None
        cr = const_range(a0)
        if cr is not None:
            # `lo..hi` with constant integer bounds: a loop with a concrete trip count
            if base.endswith("IntoIterator>::into_iter") or base.startswith("core::iter::IntoIterator::into_iter") or "IntoIterator for I>::into_iter" in base:
                return a0
            if base.endswith("core::ops::Range<A>>::next") and tag(raw_args[0]) == "ref":
                ty, lo, hi = cr
                if lo >= hi:
                    return mk("agg", ("adt", "core::option::Option", 0, "None"), ())
                ra = raw_args[0]
                self.store_to(st, ra[1], tuple(ra[2]), mk("agg", a0[1], (mk_const(ty, from_signed(ty, lo + 1)), a0[2][1])))
                return mk("agg", ("adt", "core::option::Option", 1, "Some"), (a0[2][0],))
            if (base.endswith("Iterator>::fold") or base.startswith("core::iter::Iterator::fold")) and len(args) == 3:
                # `(lo..hi).fold(init, |acc, i| ..)` with constant bounds: the closure applied hi - lo times
                ty, lo, hi = cr
                clo = self.deref_value(st, args[2])
                cb = self.facts.by_key.get(clo[1][1]) if tag(clo) == "agg" and clo[1][0] == "closure" else None
                if cb is not None and hi - lo <= 64:
                    sub = Exec(self.facts, self.policy, max_nodes=2000)
                    leaf = sub.run_body(cb)
                    if leaf[0] == "leaf" and not leaf[2]:
                        acc = self.deref_value(st, args[1])
                        for i in range(lo, hi):
                            acc = _subst_closure(leaf[1], clo, acc, mk_const(ty, from_signed(ty, i)))
                        return acc
            return None
        if tag(a0) != "sliceiter" and not (base.startswith("core::option::Option::<T>::unwrap") or base.startswith("core::option::Option::<T>::expect")
                                           or base.startswith("core::mem::replace") or base.startswith("core::mem::swap") or base.startswith("core::mem::take")):
            return None
        if base.startswith("core::iter::Iterator::rev") and len(args) == 1:
            return mk("sliceiter", a0[1], a0[2], a0[3], 1 - a0[4])
        if base.endswith("IntoIterator>::into_iter") or base.startswith("core::iter::IntoIterator::into_iter") or "IntoIterator for I>::into_iter" in base:
            return a0
        if base.endswith("Iterator>::next") or base.startswith("core::iter::Iterator::next") or base.endswith("::next"):
            ra = raw_args[0]
            if tag(ra) != "ref":
                return None
            carr, lo, hi, rev = a0[1], a0[2], a0[3], a0[4]
            if lo >= hi:
                return mk("agg", ("adt", "core::option::Option", 0, "None"), ())
            idx = hi - 1 if rev else lo
            nlo, nhi = (lo, hi - 1) if rev else (lo + 1, hi)
            self.store_to(st, ra[1], tuple(ra[2]), mk("sliceiter", carr, nlo, nhi, rev))
            el = self.index(carr, mk_const("usize", idx))
            loc = st.alloc(); st.store[loc] = el
            return mk("agg", ("adt", "core::option::Option", 1, "Some"), (mk("ref", loc, ()),))
        m_aa = re.search(r"Iterator>::(all|any)$|^core::iter::Iterator::(all|any)$", base)
        if m_aa and len(args) == 2 and tag(a0) == "sliceiter":
            which = m_aa.group(1) or m_aa.group(2)
            carr, lo, hi, rev = a0[1], a0[2], a0[3], a0[4]
            clo = self.deref_value(st, args[1])
            cb = self.facts.by_key.get(clo[1][1]) if tag(clo) == "agg" and clo[1][0] == "closure" else None
            if cb is not None and hi - lo <= 16:
                sub = Exec(self.facts, self.policy, max_nodes=2000)
                leaf = sub.run_body(cb)
                if leaf[0] == "leaf" and not leaf[2]:
                    acc = None
                    for i in (range(hi - 1, lo - 1, -1) if rev else range(lo, hi)):
                        el = self.index(carr, mk_const("usize", i))
                        v_ = _subst_closure(leaf[1], clo, el, mk("unit"))
                        acc = v_ if acc is None else self.binop("BitAnd" if which == "all" else "BitOr", "bool", acc, v_)
                    return acc if acc is not None else mk_const("bool", 1 if which == "all" else 0)
        is_rfold = base.endswith("Iterator>::rfold") or base.startswith("core::iter::DoubleEndedIterator::rfold")
        if (base.endswith("Iterator>::fold") or base.startswith("core::iter::Iterator::fold") or is_rfold) and len(args) == 3:
            carr, lo, hi, rev = a0[1], a0[2], a0[3], a0[4]
            if is_rfold:
                rev = 1 - rev
            clo = self.deref_value(st, args[2])
            if tag(clo) != "agg" or clo[1][0] != "closure":
                return None
            cb = self.facts.by_key.get(clo[1][1])
            if cb is None:
                return None
            sub = Exec(self.facts, self.policy, max_nodes=2000)
            leaf = sub.run_body(cb)
            if leaf[0] != "leaf" or leaf[2]:
                return None
            acc = self.deref_value(st, args[1])
            order = range(hi - 1, lo - 1, -1) if rev else range(lo, hi)
            for i in order:
                el = self.index(carr, mk_const("usize", i))
                acc = _subst_closure(leaf[1], clo, acc, el)
            return acc
        if base.startswith("core::mem::replace") and len(raw_args) == 2 and tag(raw_args[0]) == "ref":
            ra = raw_args[0]
            old = self.load(st, ra[1], ra[2])
            self.store_to(st, ra[1], tuple(ra[2]), raw_args[1])
            return old
        if base.startswith("core::mem::take") and len(raw_args) == 1 and tag(raw_args[0]) == "ref":
            ra = raw_args[0]
            old = self.load(st, ra[1], ra[2])
            self.store_to(st, ra[1], tuple(ra[2]), mk("call", "Default::default<%s>" % ",".join(canon_generic(a) for a in (r.get("args") or [])) ))
            return old
        if base.startswith("core::mem::swap") and len(raw_args) == 2 and tag(raw_args[0]) == "ref" and tag(raw_args[1]) == "ref":
            ra, rb = raw_args
            va = self.load(st, ra[1], ra[2]); vb = self.load(st, rb[1], rb[2])
            self.store_to(st, ra[1], tuple(ra[2]), vb); self.store_to(st, rb[1], tuple(rb[2]), va)
            return mk("unit")
        if base.startswith("core::option::Option::<T>::unwrap") or base.startswith("core::option::Option::<T>::expect"):
            ra = raw_args[0]
            v = ra if tag(ra) == "agg" else self.deref_value(st, ra)
            if tag(v) == "agg" and v[1][0] == "adt" and v[1][3] == "Some":
                return (ra if tag(ra) == "agg" else v)[2][0]
            return None
        return None

    def primitive_foreign(self, st, name, r, args):
        """Foreign items that are IEEE primitives on f64 (std's operator impls on references,
        mul_add / libm::fma, recip)."""
        if r is None:
            return None
        base = F.norm_path(r["def"])
        it = self.iterator_foreign(st, base, r, args, args)
        if it is not None:
            return it
        if base == "core::slice::<impl [T]>::len" and len(args) == 1:
            arr = self.deref_value(st, args[0])
            if tag(arr) == "carray":
                ml = re.match(r"^\[(.*); (\d+)\]$", arr[1])
                if ml:
                    return mk_const("usize", int(ml.group(2)))
        if base == "core::ops::RangeInclusive::<Idx>::contains" and len(args) == 2:
            rng = self.deref_value(st, args[0]); item = self.deref_value(st, args[1])
            if tag(rng) == "call" and rng[1].startswith("core::ops::RangeInclusive::<Idx>::new<") and len(rng) == 4 \
                    and all(is_const(x) and x[1] in INT_BITS for x in (rng[2], rng[3], item)) and rng[2][1] == item[1] == rng[3][1]:
                ty_ = item[1]
                return mk_const("bool", int(to_signed(ty_, cint(rng[2])) <= to_signed(ty_, cint(item)) <= to_signed(ty_, cint(rng[3]))))
        if base in ("core::f64::<impl f64>::is_sign_positive", "core::f64::<impl f64>::is_sign_negative") and len(args) == 1:
            # the sign bit of |x| is clear (for every x, NaN included: fabs is a bit operation); of a constant: read off
            x_ = self.deref_value(st, args[0])
            if tag(x_) == "call" and x_[1] == "libm::fabs" and len(x_) == 3:
                return mk_const("bool", int(base.endswith("positive")))
            if is_const(x_) and x_[1] == "f64":
                return mk_const("bool", int((cint(x_) >> 63 == 0) == base.endswith("positive")))
        mp_ = re.match(r"^core::num::<impl (\w+)>::pow$", base)
        if mp_ and mp_.group(1) in INT_BITS and len(args) == 2:
            ty_ = mp_.group(1); b_ = self.deref_value(st, args[0]); e_ = self.deref_value(st, args[1])
            if is_const(b_) and is_const(e_):
                v_ = to_signed(ty_, cint(b_)) ** cint(e_)
                if in_range(ty_, v_):
                    return mk_const(ty_, from_signed(ty_, v_))
            elif is_const(b_) and cint(b_) == 2 and ty_.startswith("u"):
                # 2^k for an unsigned type is 1 << k (it overflows - a panic with overflow checks - exactly when k >= BITS;
                # the panic-site analysis asks for k < BITS at this call)
                return self.binop("Shl", ty_, mk_const(ty_, 1), e_)
        if base == "core::convert::identity" and len(args) == 1:
            return args[0]
        if base == "<I as core::iter::IntoIterator>::into_iter" and len(args) == 1:
            return args[0]      # the blanket impl for iterators: `fn into_iter(self) -> I { self }`
        m = self._ARITH.match(base)
        if m:
            a = self.deref_value(st, args[0]); b = self.deref_value(st, args[1])
            return mk("f", m.group(2), a, b)
        if self._NEG.match(base):
            return self.unop("Neg", "f64", self.deref_value(st, args[0]))
        m = self._CMP.match(base)
        if m:
            a = self.deref_value(st, args[0]); b = self.deref_value(st, args[1])
            return mk("cmp", m.group(2), "f64", a, b)
        if base in self.FMA_NAMES:
            a, b, c = [self.deref_value(st, x) for x in args]
            return mk("f", "fma", a, b, c, base)
        if base == "core::f64::<impl f64>::from_bits" and len(args) == 1:
            v = self.deref_value(st, args[0])
            if is_const(v) and v[1] == "u64":
                b_ = cint(v)
                if not ((b_ >> 52) & 0x7ff == 0x7ff and b_ & ((1 << 52) - 1)):      # not a NaN pattern
                    return mk_const("f64", b_)
            # from_bits(to_bits(x) ^ (1 << 63)) is -x exactly; `| (1 << 63)` is -|x|
            if tag(v) == "i" and v[1] in ("bitxor", "bitor") and v[2] == "u64":
                for x, m in ((v[3], v[4]), (v[4], v[3])):
                    if is_const(m) and cint(m) == 1 << 63 and tag(x) == "call" and x[1] == "core::f64::<impl f64>::to_bits" and len(x) == 3:
                        inner = x[2] if v[1] == "bitxor" else mk("call", "libm::fabs", x[2])
                        return self.unop("Neg", "f64", inner)
            # from_bits(to_bits(x) & 0x7fff_ffff_ffff_ffff) is |x| exactly (libm::fabs)
            if tag(v) == "i" and v[1] == "bitand" and v[2] == "u64":
                for x, m in ((v[3], v[4]), (v[4], v[3])):
                    if is_const(m) and cint(m) == (1 << 63) - 1 and tag(x) == "call" and x[1] == "core::f64::<impl f64>::to_bits" and len(x) == 3:
                        return mk("call", "libm::fabs", x[2])
        if base in ("core::f64::<impl f64>::abs",) and len(args) == 1:
            return mk("call", "libm::fabs", self.deref_value(st, args[0]))
        if base in ("libm::copysign", "core::f64::<impl f64>::copysign") and len(args) == 2:
            x_ = self.deref_value(st, args[0]); s_ = self.deref_value(st, args[1])
            if is_const(s_) and s_[1] == "f64" and cint(s_) >> 63 == 0 and (cint(s_) >> 52) & 0x7ff != 0x7ff:
                return mk("call", "libm::fabs", x_)      # the sign of a positive constant: |x|
        # the exactly specified IEEE operations have one result whoever computes them: std's inherent methods and libm's
        # functions are the same function (sqrt is correctly rounded in both; the roundings to an integer are exact)
        STD_EXACT = {"sqrt": "libm::sqrt", "floor": "libm::floor", "ceil": "libm::ceil", "trunc": "libm::trunc", "round": "libm::round",
                     "copysign": "libm::copysign"}
        m_std = re.match(r"^(?:core|std)::f64::<impl f64>::(\w+)$", base)
        if m_std and m_std.group(1) in STD_EXACT and len(args) in (1, 2):
            return mk("call", STD_EXACT[m_std.group(1)], *[self.deref_value(st, a) for a in args])
        m = re.match(r"^core::convert::num::<impl core::convert::From<(\w+)> for (\w+)>::from$", base)
        if m and len(args) == 1:
            # the numeric From impls of core are the lossless `as` conversions
            T, U = m.group(1), m.group(2)
            if T in INT_BITS and U in INT_BITS:
                return self.cast("IntToInt", T, U, self.deref_value(st, args[0]))
            if T in INT_BITS and U == "f64":
                return self.cast("IntToFloat", T, U, self.deref_value(st, args[0]))
            if T == "f32" and U == "f64":
                return self.cast("FloatToFloat", T, U, self.deref_value(st, args[0]))
        if base in ("<core::cmp::Ordering as core::cmp::PartialEq>::eq", "<core::cmp::Ordering as core::cmp::PartialEq>::ne") and len(args) == 2:
            # a field-less enum: equality of discriminants (Less = -1, Equal = 0, Greater = 1 as i8)
            def od(v):
                v = self.deref_value(st, v)
                if tag(v) == "agg" and v[1][0] == "adt" and v[1][1].endswith("Ordering"):
                    return mk_const("i8", {"Less": 255, "Equal": 0, "Greater": 1}[v[1][3]])
                return mk("discr", v)
            c = mk("cmp", "eq", "i8", od(args[0]), od(args[1]))
            return c if base.endswith("::eq") else mk("not", c)
        if (base in ("<core::num::FpCategory as core::cmp::PartialEq>::eq", "<core::num::FpCategory as core::cmp::PartialEq>::ne")
                or (base == "core::cmp::PartialEq::ne" and [canon_generic(a_) for a_ in (r.get("args") or [])] == ["core::num::FpCategory"] * 2)) and len(args) == 2:
            # a field-less enum of core with a derived PartialEq: equality of discriminants (Nan 0, Infinite 1, Zero 2, Subnormal 3, Normal 4)
            def fd(v):
                v = self.deref_value(st, v)
                if tag(v) == "agg" and v[1][0] == "adt" and v[1][1].endswith("FpCategory"):
                    return mk_const("isize", v[1][2])
                return mk("discr", v)
            c = self.binop("Eq", "isize", fd(args[0]), fd(args[1]))
            return c if base.endswith("::eq") else (mk("not", c) if not is_const(c) else mk_const("bool", 1 - cint(c)))
        if base in ("core::ops::RangeInclusive::<Idx>::end", "core::ops::RangeInclusive::<Idx>::start") and len(args) == 1:
            rng = self.deref_value(st, args[0])
            if tag(rng) == "call" and rng[1].startswith("core::ops::RangeInclusive::<Idx>::new") and len(rng) == 4:
                loc = st.alloc(); st.store[loc] = rng[3] if base.endswith("::end") else rng[2]
                return mk("ref", loc, ())
        if base == "<core::option::Option<T> as core::default::Default>::default" and not args:
            return mk("agg", ("adt", "core::option::Option", 0, "None"), ())
        if base == "<f64 as core::default::Default>::default":
            return f64c(0.0)
        if base == "core::f64::<impl f64>::recip":
            return mk("f", "div", f64c(1.0), self.deref_value(st, args[0]))
        return None

    def cond_foreign(self, st, r, args):
        """Foreign integer / slice primitives whose result is an Option or a Result decided by a range test: a value tree
        ("val", v) | ("if", cond, tree, tree).  checked_add/sub/mul, the integer TryFrom impls of core, <[T]>::get(usize)."""
        if r is None:
            return None
        base = F.norm_path(r["def"])
        NONE = mk("agg", ("adt", "core::option::Option", 0, "None"), ())
        def some(v):
            return mk("agg", ("adt", "core::option::Option", 1, "Some"), (v,))
        m = re.match(r"^core::num::<impl (\w+)>::checked_(add|sub|mul)$", base)
        if m and m.group(1) in INT_BITS and len(args) == 2:
            ty = m.group(1)
            a = self.deref_value(st, args[0]); b = self.deref_value(st, args[1])
            pair = self.binop({"add": "AddWithOverflow", "sub": "SubWithOverflow", "mul": "MulWithOverflow"}[m.group(2)], ty, a, b)
            res, ovf = pair[2]
            return ("if", ovf, ("val", NONE), ("val", some(res)))
        if re.search(r"Iterator>::find$|^core::iter::Iterator::find$", base) and len(args) == 2 and tag(args[0]) == "ref":
            # `table.iter().find(|e| pred(e))` over a table of known length: the first element for which the predicate holds
            it_ = self.load(st, args[0][1], args[0][2])
            clo = self.deref_value(st, args[1])
            cb = self.facts.by_key.get(clo[1][1]) if tag(clo) == "agg" and clo[1][0] == "closure" else None
            if tag(it_) == "sliceiter" and cb is not None and it_[3] - it_[2] <= 16:
                carr, lo_, hi_, rev = it_[1], it_[2], it_[3], it_[4]
                sub = Exec(self.facts, self.policy, max_nodes=2000)
                try:
                    leaf = sub.run_body(cb)
                except Unsupported:
                    leaf = None
                if leaf is not None and leaf[0] == "leaf" and not leaf[2]:
                    tree = ("val", NONE)
                    for i in (range(lo_, hi_) if rev else range(hi_ - 1, lo_ - 1, -1)):      # built from the last candidate backwards
                        el = self.index(carr, mk_const("usize", i))
                        cnd = _subst_closure(leaf[1], clo, el, mk("unit"))
                        loc = st.alloc(); st.store[loc] = el
                        tree = ("if", cnd, ("val", some(mk("ref", loc, ()))), tree)
                    return tree
        if base == "<T as core::convert::TryFrom<U>>::try_from" and len(args) == 1 and len(r.get("args") or []) == 2:
            # the blanket impl through Into: infallible (`Ok(U::into(value))`); for integers Into is the lossless cast
            T, U = [canon_generic(a) for a in r["args"]]
            if T in INT_BITS and U in INT_BITS:
                x = self.deref_value(st, args[0])
                return ("val", mk("agg", ("adt", "core::result::Result", 0, "Ok"), (self.cast("IntToInt", U, T, x),)))
        m = re.match(r"^core::num::<impl (\w+)>::checked_(shl|shr)$", base)
        if m and m.group(1) in INT_BITS and len(args) == 2:
            ty = m.group(1)
            a = self.deref_value(st, args[0]); sh = self.deref_value(st, args[1])
            res = self.binop("Shl" if m.group(2) == "shl" else "Shr", ty, a, sh)
            return ("if", self.binop("Lt", "u32", sh, mk_const("u32", INT_BITS[ty])), ("val", some(res)), ("val", NONE))
        m = re.match(r"^core::convert::num::(?:\w+::)?<impl core::convert::TryFrom<(\w+)> for (\w+)>::try_from$", base)
        if m and m.group(1) in INT_BITS and m.group(2) in INT_BITS and len(args) == 1:
            T, U = m.group(1), m.group(2)
            # the pointer-sized types are as wide as the arm of a `match size_of::<usize>()` this path is in (else as on this target)
            pbits = 64
            for k_, v_ in st.known.items():
                k0_ = k_
                while tag(k0_) == "cast" and k0_[1] == "IntToInt":
                    k0_ = k0_[4]      # `size_of::<isize>() as u64`
                if tag(k0_) == "call" and k0_[1] in ("core::mem::size_of<isize>", "core::mem::size_of<usize>") and type(v_) is int and v_ in (1, 2, 4, 8, 16):
                    pbits = 8 * v_
            PTR = {"usize": "u%d" % pbits, "isize": "i%d" % pbits}
            def rng(ty):
                ty = PTR.get(ty, ty); n = INT_BITS[ty]
                return (-(1 << (n - 1)), (1 << (n - 1)) - 1) if ty.startswith("i") else (0, (1 << n) - 1)
            (tlo, thi), (ulo, uhi) = rng(T), rng(U)
            x = self.deref_value(st, args[0])
            ok = ("val", mk("agg", ("adt", "core::result::Result", 0, "Ok"), (self.cast("IntToInt", T, U, x),)))
            err = ("val", mk("agg", ("adt", "core::result::Result", 1, "Err"), (mk("agg", ("adt", "core::num::error::TryFromIntError", 0, "TryFromIntError"), (mk("unit"),)),)))
            tree = ok
            if uhi < thi:
                tree = ("if", self.binop("Gt", T, x, mk_const(T, from_signed(T, uhi))), err, tree)
            if ulo > tlo:
                tree = ("if", self.binop("Lt", T, x, mk_const(T, from_signed(T, ulo))), err, tree)
            return tree
        if base.endswith("core::ops::Range<A>>::next") and len(args) == 1 and tag(args[0]) == "ref":
            ra = args[0]
            rng = self.load(st, ra[1], ra[2])
            ity = (r.get("args") or [None])[0]
            ity = canon_generic(ity) if ity else None
            if tag(rng) == "agg" and len(rng[2]) == 2 and ity in INT_BITS and rng[2][0] is not None and rng[2][1] is not None:
                lo_, hi_ = rng[2]
                def advance(s2, ra=ra, rng=rng, lo_=lo_, hi_=hi_, ity=ity):
                    self.store_to(s2, ra[1], tuple(ra[2]), mk("agg", rng[1], (self.binop("Add", ity, lo_, mk_const(ity, 1)), hi_)))
                return ("if", self.binop("Lt", ity, lo_, hi_), ("val", some(lo_), advance), ("val", NONE))
        if base.startswith("core::slice::<impl [T]>::get") and not base.startswith("core::slice::<impl [T]>::get_") and len(args) == 2 \
                and (r.get("args") or [None, None])[1:] == ["usize"]:
            arr = self.deref_value(st, args[0])
            if tag(arr) == "carray":
                mlen = re.match(r"^\[(.*); (\d+)\]$", arr[1])
                if mlen:
                    idx = self.deref_value(st, args[1])
                    loc = st.alloc(); st.store[loc] = self.index(arr, idx)
                    return ("if", self.binop("Lt", "usize", idx, mk_const("usize", int(mlen.group(2)))), ("val", some(mk("ref", loc, ()))), ("val", NONE))
        return None

    def branch_values(self, st, t, vt):
        """continue at the call's target block with the destination holding one of several values, by cases"""
        if vt[0] == "val":
            if len(vt) > 2 and vt[2] is not None:
                vt[2](st)       # the call's effect on what its reference argument points to
            self.write_place(st, st.frames[-1], t["dest"], vt[1])
            return self.exec_block(st, t["t"])
        c, a, b = vt[1], vt[2], vt[3]
        while tag(c) == "not":
            c = c[1]; a, b = b, a
        if is_const(c):
            return self.branch_values(st, t, a if cint(c) else b)
        if c in st.known and type(st.known[c]) is not tuple:
            return self.branch_values(st, t, a if st.known[c] else b)
        if self.hooks is not None:
            dec = self.hooks.decide(self, st, c)
            if dec is not None:
                st.known[c] = 1 if dec else 0
                return self.branch_values(st, t, a if dec else b)
        s1 = st.fork(); s1.known[c] = 1
        s2 = st.fork(); s2.known[c] = 0
        return ("if", c, self.branch_values(s1, t, a), self.branch_values(s2, t, b))

    def do_call(self, st, fr, t):
        args = [self.operand(st, fr, a) for a in t["args"]]
        if "f" not in t:
            fv = self.deref_value(st, self.operand(st, fr, t["fop"]))
            if tag(fv) == "fnitem":
                # a call through a `fn(..) -> ..` pointer whose value is a known function item (a private helper handed
                # `libm::ceil`): the call of that function
                nm = fv[1]
                lb = self.facts.get(nm)
                if lb is not None:
                    fd_ = {"def": lb.path, "res": {"def": lb.path, "key": lb.key, "args": [], "local": True}}
                    if lb.kind == "Closure" and len(args) + 1 == lb.mir["arg_count"]:
                        args = [mk("agg", ("closure", lb.key), ())] + args      # a non-capturing closure coerced to a fn pointer
                else:
                    base_, _, rest_ = nm.partition("<")
                    targs_ = []
                    if rest_.endswith(">") and not base_.startswith("<"):
                        depth_ = 0; cur_ = ""
                        for ch_ in rest_[:-1]:
                            if ch_ == "," and depth_ == 0:
                                targs_.append(cur_.strip()); cur_ = ""
                            else:
                                depth_ += ch_ in "<(["; depth_ -= ch_ in ">)]"; cur_ += ch_
                        if cur_.strip():
                            targs_.append(cur_.strip())
                    else:
                        base_ = nm
                    fd_ = {"def": base_, "res": {"def": base_, "args": targs_, "local": False}}
                t = dict(t, f=fd_)
            else:
                name, callee, r = "indirect", None, None
                return self.opaque_call(st, fr, t, "indirect:" + repr(fv)[:40], args)
        fdesc = t["f"]
        if fdesc.get("res") is None and fr.subst:
            fdesc = self.resolve_generic(fr, fdesc)
            if fdesc.get("spread") and len(args) == 2:
                # Fn*::call*(fn item, (a, b, ..)) on a foreign function: it takes the tuple's components
                tup = args[1]
                if tag(tup) == "ref":
                    tup = self.load(st, tup[1], tup[2])
                args = list(tup[2]) if tag(tup) == "agg" else []
        if fr.subst and fdesc.get("res") and fdesc["res"].get("args"):
            # a resolved callee inside an inlined generic helper: its type arguments are those of the instance
            r0 = fdesc["res"]
            fdesc = dict(fdesc, res=dict(r0, args=[subst_ty(a, fr.subst) for a in r0["args"]]))
        name, callee, r = self.callee_name(fdesc)
        if callee is None:
            pv = self.primitive_foreign(st, name, r, args)
            if pv is None and r is None and fr.subst and fdesc.get("def"):
                # an Iterator / IntoIterator method the compiler left unresolved inside a generic helper, applied to a concrete
                # table iterator of the inlined instance
                r2 = {"def": fdesc["def"], "args": fdesc.get("args", []), "local": False}
                pv = self.iterator_foreign(st, F.norm_path(fdesc["def"]), r2, args, args)
            if pv is not None:
                if self.hooks is not None and r is not None and re.match(r"^core::num::<impl \w+>::pow$", F.norm_path(r["def"])) and hasattr(self.hooks, "on_call"):
                    # modelled as a shift, but the call itself can panic (overflow): the panic-site analysis has to see it
                    self.hooks.on_call(self, st, fr, t, name, None, [self.deref_value(st, a_) for a_ in args])
                self.write_place(st, fr, t["dest"], pv)
                return None
            cf = self.cond_foreign(st, r, args) if t["t"] is not None else None
            if cf is not None:
                return ("tree", self.branch_values(st, t, cf))
            tf = self.transparent_foreign(st, fr, name, r, args, t)
            if tf is not None:
                if tf[0] == "value":
                    self.write_place(st, fr, t["dest"], tf[1])
                    return None
                callee = tf[1]
            elif r is not None and not r.get("local"):
                pb = self.facts.plumbing.get(F.norm_path(r["def"]))
                if pb is not None and len(args) == pb.mir["arg_count"] and self.policy.should_inline(fr.body, pb, fr.depth):
                    callee = pb
        if callee is not None and r is not None and r.get("fnitem") and len(args) == 2:
            # Fn*::call*(fn item, (a, b, ..)): the callee takes the tuple's components
            tup = args[1]
            if tag(tup) == "ref":
                tup = self.load(st, tup[1], tup[2])
            items = list(tup[2]) if tag(tup) == "agg" else ([] if tag(tup) == "unit" else None)
            if items is not None:
                args = items
        if callee is not None:
            depth_same = sum(1 for f in st.frames if f.body is callee) if callee.kind != "Plumbing" else 0
            if depth_same and depth_same < 4 and callee.generics and callee.kind != "Closure" and not self.policy.has_loop_or_recursion(callee):
                depth_same = 0      # a generic helper (taking a closure / fn item) entered again from inside the function it was given: not a recursion
            if depth_same and self.hooks is not None and getattr(self.hooks, "recursion_limit", 0) > depth_same \
                    and not callee.reachable and callee.ident() not in self.policy.keep:
                depth_same = 0      # bounded re-entry of a private recursive helper (decided by the hooks' facts)
            if depth_same:
                if self.policy.level == "prim" and callee.ident() not in self.policy.keep:
                    raise Unsupported("recursion into %s" % callee.ident())
                return self.opaque_call(st, fr, t, callee.ident(), args, callee)
            if self.policy.should_inline(fr.body, callee, fr.depth) or (self.hooks is not None and getattr(self.hooks, "force_inline", None) and self.hooks.force_inline(callee, st)):
                mir = callee.mir
                locs = {i: st.alloc() for i in range(len(mir["locals"]))}
                nf = Frame(callee, mir, locs, (t["dest"], t["t"]), fr.depth + 1)
                if callee.kind == "Closure":
                    nf.subst = self.closure_subst.get(callee.key, {})
                elif callee.generics and r is not None and len(callee.generics) == len(r.get("args", [])):
                    nf.subst = {g: subst_ty(a, fr.subst) for g, a in zip(callee.generics, r["args"])}
                via_fn_trait = callee.kind == "Closure" and "f" in t and re.search(r"ops::function::Fn(Mut|Once)?::call(_mut|_once)?$|ops::Fn(Mut|Once)?::call(_mut|_once)?$", F.norm_path(t["f"]["def"]))
                if callee.kind == "Closure" and len(args) == 2 and (via_fn_trait or len(args) != mir["arg_count"]):
                    # Fn*/FnMut/FnOnce::call*(closure, (a, b, ..)): spread the argument tuple (its components stay what
                    # they are: a `&T` argument remains a reference)
                    tup = args[1]
                    if tag(tup) == "ref":
                        tup = self.load(st, tup[1], tup[2])
                    items = list(tup[2]) if tag(tup) == "agg" else ([] if tag(tup) == "unit" else None)
                    if items is not None and 1 + len(items) == mir["arg_count"]:
                        env_arg = args[0]
                        # the body's first parameter is the environment by reference or by value
                        ety = F.norm_ty(mir["locals"][1]["ty"])
                        if not ety.startswith("&") and tag(env_arg) == "ref":
                            env_arg = self.load(st, env_arg[1], env_arg[2])
                        elif ety.startswith("&") and tag(env_arg) != "ref":
                            l = st.alloc(); st.store[l] = env_arg; env_arg = mk("ref", l, ())
                        args = [env_arg] + items
                if len(args) != mir["arg_count"]:
                    raise Unsupported("arity mismatch calling %s" % callee.ident())
                for i, a in enumerate(args):
                    st.store[locs[i + 1]] = a
                if callee.kind != "Plumbing":
                    COVERED.add(callee.ident()); self.covered.add(callee.ident())
                st.frames.append(nf)
                return ("enter", 0)
            return self.opaque_call(st, fr, t, callee.ident(), args, callee)
        return self.opaque_call(st, fr, t, name, args, None)

    def opaque_call(self, st, fr, t, name, args, callee=None):
        pure_args = []
        muts = []
        argtys = []
        for i, a in enumerate(args):
            if tag(a) == "ref":
                pure_args.append(self.deref_value(st, a))
            else:
                pure_args.append(self.deref_value(st, a))
        if self.hooks is not None and hasattr(self.hooks, "on_call"):
            self.hooks.on_call(self, st, fr, t, name, callee, pure_args)
        # which arguments are &mut ?  use the MIR operand's local type
        for i, ao in enumerate(t["args"]):
            ty = None
            pl = ao.get("move") or ao.get("copy")
            if pl is not None and not pl["p"]:
                ty = F.norm_ty(fr.mir["locals"][pl["l"]]["ty"])
            argtys.append(ty)
            if ty and ty.startswith("&mut") and tag(args[i]) == "ref":
                muts.append(i)
        op = self.policy.op_of(callee) if callee is not None else None
        if op is not None and self.policy.level == "op":
            kind, opn, lt, rt = op
            if kind == "op":
                term = mk("call", "op:%s:%s:%s" % (opn, lt, rt), *pure_args)
                self.write_place(st, fr, t["dest"], term)
                return None
            else:
                term = mk("call", "op:%s:%s:%s" % (opn, lt, rt), *pure_args)
                a0 = args[0]
                if not (tag(a0) == "ref"):
                    raise Unsupported("assign op on non-reference")
                self.store_to(st, a0[1], tuple(a0[2]), term)
                self.write_place(st, fr, t["dest"], mk("unit"))
                return None
        if name.startswith("core::fmt::Arguments::<>::new"):
            # the source position of the format_args! links the call to the template recorded from the AST
            pure_args = list(pure_args) + [mk("site", t.get("usp") or t["sp"])]
        term = mk("call", name, *pure_args)
        for i in muts:
            a = args[i]
            self.store_to(st, a[1], tuple(a[2]), mk("after", term, i))
        # a closure handed to code that is not read through may run any number of times: whatever it captures by
        # reference and assigns through is unknown afterwards
        if callee is None:
            for ai, a in enumerate(args):
                cv = a
                if tag(cv) == "ref":
                    try:
                        cv = self.load(st, cv[1], cv[2])
                    except Unsupported:
                        continue
                if tag(cv) == "agg" and cv[1][0] == "closure":
                    cb = self.facts.by_key.get(cv[1][1])
                    if cb is None:
                        continue
                    written = closure_written_captures(cb)
                    for fi, cap in enumerate(cv[2]):
                        if fi in written and tag(cap) == "ref":
                            self.store_to(st, cap[1], tuple(cap[2]), mk("after", term, "cap%d.%d" % (ai, fi)))
        if t.get("diverges") or t["t"] is None:
            return ("diverge", term)
        self.write_place(st, fr, t["dest"], term)
        return None

    def split_on_flag(self, st, fr, cnd, dest, ity, bi, next_si, target_block=None):
        """fork on a symbolic bool whose integer value is being taken: dest = 1 / 0 in the two states"""
        neg = False
        c = cnd
        while tag(c) == "not":
            c = c[1]; neg = not neg
        if c in st.known and type(st.known[c]) is not tuple:
            return None
        if self.hooks is not None:
            return None
        out = []
        for val in (1, 0):
            s_ = st.fork()
            s_.known[c] = val
            f_ = s_.frames[-1]
            bit = (1 - val) if neg else val
            self.write_place(s_, f_, dest, mk_const(ity, bit))
            out.append(self.exec_block(s_, bi, next_si) if target_block is None else self.exec_block(s_, target_block))
        return ("if", c, out[0], out[1])

    # ------------------------------------------------------------ control flow
    def finish(self, st, fr):
        ret = self.deref_value(st, st.store.get(fr.locs[0], mk("unit")))
        effects = []
        for i, pl in sorted(self.param_locs.items()):
            v = self.deref_value(st, st.store[pl])
            if v != mk("param", i):
                effects.append((i, v))
        return ("leaf", ret, tuple(effects))

    def exec_block(self, st, bi, si=0):
        """si > 0: resume block bi at statement si (after a case split on a statement of the block)"""
        while True:
            self.nodes += 1
            if self.nodes > self.max_nodes:
                raise Unsupported("node budget exceeded")
            fr = st.frames[-1]
            if si:
                pass
            elif self.stop is not None and len(st.frames) == self.stop[0] and bi not in self.stop[1]:
                return ("exit",)
            if si:
                pass
            elif bi in fr.visited and fr.seen_at.get(bi) == st.nforks and fr.revisits < 400:
                # the path from this block back to itself took no symbolic branch: a loop with a concrete
                # trip count (iteration over a constant table) is unrolled
                fr.revisits += 1
                fr.visited = fr.visited - {bi}
            if si:
                pass
            elif bi in fr.visited:
                if self.loops == "havoc" and bi in self.loop_info(fr.mir):
                    cs, assigned, through = self.loop_info(fr.mir)[bi]
                    snap = tuple((l, self.deref_value(st, st.store.get(fr.locs[l]))) for l in sorted(assigned) if fr.locs[l] in st.store)
                    return ("backedge", fr.body.ident(), bi, snap)
                raise Unsupported("loop in %s" % fr.body.ident())
            if not si:
                fr.visited = fr.visited | {bi}
                first_visit = bi not in fr.seen_at
                fr.seen_at[bi] = st.nforks
                if self.loops == "havoc" and bi in self.loop_info(fr.mir) and first_visit and not self.concrete_loop(st, fr, bi):
                    self.havoc(st, fr, bi)
            b = fr.mir["blocks"][bi]
            start = si
            si = 0
            for k_s, s in enumerate(b["s"]):
                if k_s < start:
                    continue
                if "lhs" in s:
                    rv_ = s.get("rv", {})
                    if "cast" in rv_ and rv_["cast"] == "IntToInt" and F.norm_ty(rv_.get("from", "")) == "bool" and F.norm_ty(rv_.get("ty", "")) in INT_BITS:
                        # `flag as usize`: a symbolic flag becomes a case split, so that what it selects (an array element) is concrete
                        cnd = self.operand(st, fr, rv_["a"])
                        if not is_const(cnd):
                            r_ = self.split_on_flag(st, fr, cnd, s["lhs"], F.norm_ty(rv_["ty"]), bi, k_s + 1)
                            if r_ is not None:
                                return r_
                    if "cast" in rv_ and rv_["cast"] == "IntToInt":
                        # `e as usize` for a field-less enum of this crate: one case per variant
                        dv = self.operand(st, fr, rv_["a"])
                        vs_ = self.facts.enums.get(self.discr_ty.get(dv, "")) if tag(dv) == "discr" else None
                        if vs_ and not (dv in st.known and type(st.known[dv]) is not tuple):
                            ity_ = F.norm_ty(rv_["ty"])
                            arms = []
                            for _, dval in vs_:
                                s_ = st.fork(); s_.known[dv] = dval
                                self.write_place(s_, s_.frames[-1], s["lhs"], mk_const(ity_, from_signed(ity_, dval)))
                                arms.append((dval, self.exec_block(s_, bi, k_s + 1)))
                            return ("switch", dv, tuple(arms), ("unreachable",))
                    self.assign(st, fr, s)
                elif "setdiscr" in s:
                    raise Unsupported("SetDiscriminant")
                elif "intrinsic" in s:
                    pass
                else:
                    raise Unsupported("statement %r" % (list(s.keys()),))
            t = b["t"]
            k = t["k"]
            if k == "goto":
                bi = t["t"]; continue
            if k == "drop":
                bi = t["t"]; continue
            if k == "ret":
                if fr.ret_to is None:
                    return self.finish(st, fr)
                dest, nb = fr.ret_to
                val = st.store.get(fr.locs[0], mk("unit"))
                st.frames.pop()
                caller = st.frames[-1]
                self.write_place(st, caller, dest, val)
                if nb is None:
                    return ("panic", "return into diverging call")
                bi = nb; continue
            if k == "assert":
                cond = self.operand(st, fr, t["cond"])
                if is_const(cond) and bool(cint(cond)) != t["expected"]:
                    if self.hooks is not None:
                        self.hooks.on_panic(self, st, fr, t, "assert:" + t["msg"]["k"])
                    return ("panic", "assert:" + t["msg"]["k"])
                if not is_const(cond) and self.hooks is not None:
                    self.hooks.on_assert(self, st, fr, t, cond)
                    c2 = cond; want = 1 if t["expected"] else 0
                    while tag(c2) == "not":
                        c2 = c2[1]; want = 1 - want
                    st.known[c2] = want
                bi = t["t"]; continue
            if k == "unreachable":
                return ("unreachable",)
            if k == "call":
                if "f" in t and t.get("t") is not None and len(t["args"]) == 1:
                    d_ = F.norm_path(((t["f"].get("res") or t["f"]).get("def", "")))
                    mb = re.match(r"^core::convert::num::<impl core::convert::From<bool> for (\w+)>::from$", d_)
                    if mb and mb.group(1) in INT_BITS:
                        cnd = self.operand(st, fr, t["args"][0])
                        if is_const(cnd):
                            self.write_place(st, fr, t["dest"], mk_const(mb.group(1), cint(cnd)))
                            bi = t["t"]; continue
                        r_ = self.split_on_flag(st, fr, cnd, t["dest"], mb.group(1), bi, 0, target_block=t["t"])
                        if r_ is not None:
                            return r_
                r = self.do_call(st, fr, t)
                if r is None:
                    if t["t"] is None:
                        return ("panic", "diverging call")
                    bi = t["t"]; continue
                if r[0] == "enter":
                    bi = 0; continue
                if r[0] == "tree":
                    return r[1]
                if r[0] == "diverge":
                    if self.hooks is None and (t.get("dbg") or EXPLICIT_PANIC.search(r[1][1])):
                        # the failure arm of an assertion / expect / unwrap: the form rules read the function as if it is not
                        # taken (whether it can be is the business of the totality rules, which do see this arm: the property's
                        # own, or rule RD for the bodies a form rule evaluated)
                        return ("unreachable",)
                    if self.hooks is not None:
                        self.hooks.on_panic(self, st, fr, t, r[1][1])
                    nm = r[1][1]
                    if nm.startswith("core::panicking::") or nm.startswith("core::rt::") or "begin_panic" in nm or "panic_fmt" in nm:
                        nm = "panic"
                    return ("panic", nm)
            if k == "switch":
                d = self.operand(st, fr, t["d"])
                d = self.deref_value(st, d)
                dty = F.norm_ty(t["dty"])
                vals = [int(v) for v in t["vals"]]
                if is_const(d):
                    x = cint(d)
                    if dty in INT_BITS:
                        x &= (1 << INT_BITS[dty]) - 1
                    for v, tg in zip(vals, t["targets"]):
                        if v == x:
                            bi = tg; break
                    else:
                        bi = t["otherwise"]
                    continue
                excluded = ()
                if d in st.known:
                    x = st.known[d]
                    if type(x) is tuple:
                        excluded = x[1]
                    else:
                        for v, tg in zip(vals, t["targets"]):
                            if v == x:
                                bi = tg; break
                        else:
                            bi = t["otherwise"]
                        continue
                neg = False
                c = d
                while tag(c) == "not":
                    c = c[1]; neg = not neg
                if dty == "bool":
                    # switchInt(c) [0 -> F, otherwise -> T]
                    tgt = {v: tg for v, tg in zip(vals, t["targets"])}
                    f_bb = tgt.get(0, t["otherwise"])
                    t_bb = tgt.get(1, t["otherwise"])
                    if neg:
                        f_bb, t_bb = t_bb, f_bb
                    if c in st.known:
                        bi = t_bb if st.known[c] else f_bb
                        continue
                    if self.hooks is not None:
                        dec = self.hooks.decide(self, st, c)
                        if dec is not None:
                            st.known[c] = 1 if dec else 0
                            bi = t_bb if dec else f_bb
                            continue
                    s1 = st.fork(); s1.known[c] = 1
                    if neg: s1.known[d] = 0
                    s2 = st.fork(); s2.known[c] = 0
                    if neg: s2.known[d] = 1
                    a = self.exec_block(s1, t_bb)
                    b2 = self.exec_block(s2, f_bb)
                    return ("if", c, a, b2)
                arms = []
                for v, tg in zip(vals, t["targets"]):
                    if v in excluded:
                        continue
                    s1 = st.fork(); s1.known[d] = v
                    arms.append((v, self.exec_block(s1, tg)))
                s2 = st.fork()
                s2.known[d] = ("notin", tuple(sorted(set(excluded) | set(vals))))
                other = self.exec_block(s2, t["otherwise"])
                if not arms:
                    return other
                return ("switch", d, tuple(arms), other)
            if k in ("resume", "terminate"):
                return ("panic", k)
            raise Unsupported("terminator %s" % k)


# -------------------------------------------------------------------- tree utilities

def leaves(tree, path=()):
    if tree[0] == "if":
        yield from leaves(tree[2], path + ((tree[1], True),))
        yield from leaves(tree[3], path + ((tree[1], False),))
    elif tree[0] == "switch":
        for v, t in tree[2]:
            yield from leaves(t, path + ((tree[1], v),))
        yield from leaves(tree[3], path + ((tree[1], "other"),))
    else:
        yield path, tree

def map_tree(tree, f):
    """apply f to every term (conditions and leaf values)"""
    if tree[0] == "if":
        return ("if", f(tree[1]), map_tree(tree[2], f), map_tree(tree[3], f))
    if tree[0] == "switch":
        return ("switch", f(tree[1]), tuple((v, map_tree(t, f)) for v, t in tree[2]), map_tree(tree[3], f))
    if tree[0] == "leaf":
        return ("leaf", f(tree[1]), tuple((i, f(v)) for i, v in tree[2]))
    if tree[0] == "backedge":
        return ("backedge", tree[1], tree[2], tuple((l, f(v) if v is not None else None) for l, v in tree[3]))
    return tree

def is_straight(tree):
    return tree[0] == "leaf"

class Shower:
    """compact rendering; nodes used more than once get a let-name"""
    def __init__(self, root, maxlen=160):
        self.counts = {}
        self.names = {}
        self.lets = []
        self._count(root)
    def _count(self, root):
        stack = [root]
        while stack:
            x = stack.pop()
            if type(x) is Node:
                c = self.counts.get(x, 0)
                self.counts[x] = c + 1
                if c == 0:
                    stack.extend(x.a)
            elif type(x) is tuple:
                stack.extend(x)
    def s(self, t):
        if type(t) is tuple:
            return self.tree(t)
        if type(t) is not Node:
            return repr(t)
        if t in self.names:
            return self.names[t]
        r = self.raw(t)
        if self.counts.get(t, 0) > 1 and t[0] not in ("param", "const", "unit") and len(r) > 12:
            nm = "%%%d" % (len(self.lets) + 1)
            self.lets.append("%s = %s" % (nm, r))
            self.names[t] = nm
            return nm
        return r
    def raw(self, t):
        s = self.s
        tg = t[0]
        if tg == "param":
            return "p%d" % t[1]
        if tg == "const":
            if t[1] == "f64":
                return repr(F.f64_from_bits(t[2]))
            if t[1] == "bool":
                return "true" if t[2] else "false"
            if t[1] in INT_BITS:
                return "%d%s" % (to_signed(t[1], t[2]), t[1])
            return "%s:%d" % (t[1], t[2])
        if tg == "field":
            return "%s.%d" % (s(t[1]), t[2])
        if tg == "f":
            if t[1] == "neg":
                return "-(%s)" % s(t[2])
            if t[1] == "fma":
                return "fma(%s, %s, %s)" % (s(t[2]), s(t[3]), s(t[4]))
            if t[1] in ("add", "sub", "mul", "div", "rem") and len(t) == 4:
                sym = {"add": "+", "sub": "-", "mul": "*", "div": "/", "rem": "%"}[t[1]]
                return "(%s %s %s)" % (s(t[2]), sym, s(t[3]))
            return "f.%s(%s)" % (t[1], ", ".join(s(a) for a in t[2:]))
        if tg == "cmp":
            return "(%s %s %s)" % (s(t[3]), t[1], s(t[4]))
        if tg == "call":
            return "%s(%s)" % (t[1], ", ".join(s(a) for a in t[2:]))
        if tg == "agg":
            k = t[1]
            kn = k[1] if k[0] == "adt" else k[0]
            if k[0] == "adt" and k[3] != k[1].split("::")[-1]:
                kn = k[1] + "::" + k[3]
            return "%s{%s}" % (kn, ", ".join(s(a) if a is not None else "_" for a in t[2]))
        if tg == "carray":
            import hashlib
            return "carray<%s>#%s" % (t[1], hashlib.sha1(t[2].encode()).hexdigest()[:8])
        if tg == "not":
            return "!%s" % s(t[1])
        return "%s(%s)" % (tg, ", ".join(s(a) for a in t[1:]))
    def tree(self, t, depth=0):
        if not t:
            return "()"
        tg = t[0]
        ind = "  " * (depth + 1)
        if tg == "leaf":
            e = "; ".join("*p%d := %s" % (i, self.s(v)) for i, v in t[2])
            return "ret %s%s" % (self.s(t[1]), (" [" + e + "]") if e else "")
        if tg == "if":
            return "if %s\n%sthen %s\n%selse %s" % (self.s(t[1]), ind, self.tree(t[2], depth + 1), ind, self.tree(t[3], depth + 1))
        if tg == "switch":
            return "switch %s" % self.s(t[1]) + "".join("\n%s%s => %s" % (ind, v, self.tree(x, depth + 1)) for v, x in t[2]) + "\n%s_ => %s" % (ind, self.tree(t[3], depth + 1))
        if tg in ("panic", "unreachable"):
            return "%s(%s)" % (tg, ", ".join(str(x) for x in t[1:]))
        return "(" + ", ".join(self.s(x) for x in t) + ")"

def show(t):
    sh = Shower(t)
    body = sh.s(t)
    if sh.lets:
        return "\n".join(sh.lets) + "\n" + body
    return body
