"""Exact-point proofs by rewriting (S-rules for the "is exact" clauses of C03/C04/C05).

The prim-level value graph of an operator (every crate function inlined down to IEEE operations)
is specialised to particular operands — a literal 0 or ±1, the operand's own negation, the operand
itself — and rewritten with identities that hold exactly in IEEE-754 round-to-nearest for *finite*
operands (the properties' domain), ignoring only the sign of an exactly-zero result:

    0*t = 0     1*t = t     (-1)*t = -t     t/1 = t     t/(-1) = -t     0/t = 0 (t != 0)     t/t = 1 (t != 0)
    0+t = t     t+(-t) = 0  t-t = 0         -0 = 0
    fma(a,b,c) = RN(a*b + c) with an exactly representable product: fma(0,t,c) = c, fma(1,t,c) = t + c,
                 fma(-1,t,c) = c - t
    validity of an operand x (the property's hypothesis):  x.hi + x.lo = x.hi   (RN(hi+lo) = hi)

`nz` lists terms assumed non-zero (a divisor's high word).  The result must rewrite to the stated
pair.  Nothing is executed; a failed rewrite is reported with the residual term."""
from .terms import mk, tag, rebuild, Node
from . import vg, norm

ZERO = vg.f64c(0.0)
ONE = vg.f64c(1.0)
MONE = vg.f64c(-1.0)
NZERO = vg.f64c(-0.0)

def is0(t): return t is ZERO or t is NZERO
def is1(t): return t is ONE
def ism1(t): return t is MONE

def fneg(t):
    if is0(t):
        return ZERO
    if tag(t) == "const" and t[1] == "f64":
        return mk("const", "f64", t[2] ^ (1 << 63))
    if tag(t) == "f" and t[1] == "neg":
        return t[2]
    return mk("f", "neg", t)

def fadd(a, b, valid):
    if is0(a): return b if not is0(b) else ZERO
    if is0(b): return a
    if fneg(a) is b or fneg(b) is a:
        return ZERO
    # validity axiom  hi + lo = hi  (either order, either with both words negated)
    for x, y in ((a, b), (b, a)):
        sx = tag(x) == "f" and x[1] == "neg"; sy = tag(y) == "f" and y[1] == "neg"
        if sx == sy:
            xx = x[2] if sx else x; yy = y[2] if sy else y
            if tag(xx) == "field" and tag(yy) == "field" and xx[1] is yy[1] and xx[2] == 0 and yy[2] == 1 and xx[1] in valid:
                return x
    if tag(a) == "const" and tag(b) == "const":
        return vg.f64c(vg.F.f64_from_bits(a[2]) + vg.F.f64_from_bits(b[2]))
    p, q = (a, b) if norm.digest(a) <= norm.digest(b) else (b, a)
    return mk("f", "add", p, q)

def fmul(a, b):
    if is0(a) or is0(b): return ZERO
    if is1(a): return b
    if is1(b): return a
    if ism1(a): return fneg(b)
    if ism1(b): return fneg(a)
    sa = tag(a) == "f" and a[1] == "neg"; sb = tag(b) == "f" and b[1] == "neg"
    aa = a[2] if sa else a; bb = b[2] if sb else b
    p, q = (aa, bb) if norm.digest(aa) <= norm.digest(bb) else (bb, aa)
    r = mk("f", "mul", p, q)
    return fneg(r) if sa != sb else r

def fdiv(a, b, nz):
    if is1(b): return a
    if ism1(b): return fneg(a)
    if is0(a) and (b in nz or (tag(b) == "const" and not is0(b))): return ZERO
    if a is b and b in nz: return ONE
    if fneg(a) is b and (b in nz or fneg(b) in nz): return MONE
    return mk("f", "div", a, b)

def rewrite(t, valid=(), nz=()):
    valid = set(valid); nz = set(nz)
    def f(k):
        if k[0] == "f":
            op = k[1]
            if op == "neg": return fneg(k[2])
            if op == "add": return fadd(k[2], k[3], valid)
            if op == "sub": return fadd(k[2], fneg(k[3]), valid)
            if op == "mul": return fmul(k[2], k[3])
            if op == "div": return fdiv(k[2], k[3], nz)
            if op == "fma":
                a, b, c = k[2], k[3], k[4]
                p = fmul(a, b)
                if is0(p): return c if not is0(c) else ZERO
                # exact products only: one factor is 0 or +-1 (then p is the other factor, up to sign)
                if is1(a) or is1(b) or ism1(a) or ism1(b):
                    return fadd(p, c, valid)
                return mk("f", "fma", a, b, c)
        if k[0] == "field":
            x, i = k[1], k[2]
            if tag(x) == "agg" and i < len(x[2]) and x[2][i] is not None:
                return x[2][i]
        return mk(*k)
    if type(t) is tuple:
        return tuple(rewrite(x, valid, nz) for x in t)
    return rebuild(t, f, {})
