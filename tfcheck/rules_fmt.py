"""C20: text output (format wiring) and serde writer/reader tables."""
import re
from . import vg, helpers as H, facts as F, dectree as D
from .helpers import P, HI, LO, TF
from .terms import mk, tag, all_nodes

TRAITS = {"Display": "new_display", "LowerExp": "new_lower_exp", "UpperExp": "new_upper_exp"}

def check_C20(ctx, rep):
    f = ctx.facts("A")
    sitemap = check_format_mir(rep, f)
    check_format_ast(rep, f, sitemap)
    check_serde(rep, f)
    # the deserialiser's only way to a value is TwoFloat::try_from, whose gate must be Definition 1.4
    from . import rules_base
    tr, b = rules_base.get_tree(rep, f, "R54g", "fn:no_overlap")
    if tr is not None:
        rules_base.expect_equiv(rep, "R54g", "deserialisation gate is Definition 1.4", "gate-predicate", D.expand_bool_leaves(tr), [rules_base.no_overlap_ref(i) for i in ("i16", "i32", "i64", "isize")], b,
                                "no_overlap (behind TryFrom<(f64,f64)>) equals the reference form: overlapping or non-finite words are rejected")
    tr, b = rules_base.get_tree(rep, f, "R54g", "<TwoFloat as core::convert::TryFrom<(f64, f64)>>::try_from")
    if tr is not None:
        a = P(0)
        x, y = mk("field", a, 0), mk("field", a, 1)
        OK = mk("agg", ("adt", "core::result::Result", 0, "Ok"), (mk("agg", ("adt", "TwoFloat", 0, "TwoFloat"), (x, y)),))
        def leq(l1, l2):
            if l2 == ("ERR",):
                return l1[0] == "leaf" and tag(l1[1]) == "agg" and l1[1][1][3] == "Err"
            return l1 == l2
        rules_base.expect_equiv(rep, "R54g", "TryFrom<(f64,f64)> stores the checked words untouched", "gate-tryfrom", tr,
                                ("if", mk("call", "fn:no_overlap", x, y), ("leaf", OK, ()), ("ERR",)), b, "no_overlap(v.0, v.1) ? Ok{v.0, v.1} : Err", leaf_eq=leq)
    if ctx.tier == "thorough":
        fb = ctx.facts("S")
        check_serde(rep, fb, sfx=" [cfg S]")

# ------------------------------------------------------------------ R53 (AST)

def split_top(s):
    out = []; depth = 0; cur = ""
    for ch in s:
        if ch in "([{":
            depth += 1
        if ch in ")]}":
            depth -= 1
        if ch == "," and depth == 0:
            out.append(cur); cur = ""
        else:
            cur += ch
    if cur:
        out.append(cur)
    return out

IDENT = re.compile(r"^[A-Za-z_][A-Za-z0-9_]*$")

def check_format_ast(rep, f, sitemap):
    """template of every format_args! reached from the three fmt bodies; which flag combination a site serves
    is read from the paths of the compiled body (sitemap: trait -> {site: {(plus, precision)}})"""
    allsites = [x for x in f.ast.get("format_args", []) if not x["in_test"]]
    n_sites = 0
    ast_templates = {}
    for tr in TRAITS:
        reach = sitemap.get(tr, {})
        got = [x for x in allsites if x.get("uspan", x["span"]) in reach and (x["impl_trait"].split("::")[-1] == tr or x["impl_self"] != "TwoFloat")]
        n_sites += len(got)
        missing = sorted(set(reach) - {x.get("uspan", x["span"]) for x in got})
        if missing:
            rep.fail("R53", "%s sites" % tr, "fmt-site-unmatched:" + tr, "format_args! reached from %s::fmt at %s has no template record in the expanded AST" % (tr, missing))
        combos = set()
        for x in got:
            cs = reach[x.get("uspan", x["span"])]
            plus, prec = (sorted(cs)[0] if len(cs) == 1 else (None, None))
            inst = "%s{%s%s}" % (tr, "+" if plus else "", ".p" if prec else "")
            if plus is None or prec is None:
                rep.fail("R53", inst, "fmt-conds:%s:%s" % (tr, x["span"].split(":")[0]), "format_args! in %s::fmt serves several flag combinations %s; each of {plain, +, .p, +.p} needs its own template" % (tr, sorted(cs)), where=x["span"]); continue
            combos.add((plus, prec))
            ps = x["pieces"]; args = x["args"]
            def nf_(k_, p_):
                if "lit" in p_:
                    return ("lit", p_["lit"])
                h_ = p_["ph"]
                # the numerals (first and last placeholder) are rendered with the impl's own trait; the joiner is a plain character
                # (or through a private wrapper printed with `{}`: which trait that amounts to is decided on the compiled body, R53m)
                trait_ = ("num" if h_["trait"] in (tr, "Display") else h_["trait"]) if k_ in (0, len(ps) - 1) else h_["trait"]
                return ("ph", trait_, h_["sign"], "arg" if isinstance(h_["precision"], dict) and h_["precision"].get("arg") is not None else h_["precision"],
                        h_["alternate"], h_["zero_pad"], h_["fill"], h_["align"], h_["width"])
            ast_templates.setdefault((plus, prec), {}).setdefault(tr, set()).add(tuple(nf_(k_, p_) for k_, p_ in enumerate(ps)))
            shape = [("ph" if "ph" in p else "lit") for p in ps]
            errs = []
            if shape != ["ph", "lit", "ph", "lit", "ph"] or ps[1]["lit"] != " " or ps[3]["lit"] != " ":
                errs.append("template is not '<hi> <sign> <|lo|>' with single spaces: %s" % [p.get("lit", "{}") for p in ps])
            else:
                p1, p2, p3 = ps[0]["ph"], ps[2]["ph"], ps[4]["ph"]
                def arg(p): return re.sub(r"\s", "", args[p["arg"]]) if p["arg"] is not None and p["arg"] < len(args) else None
                def clean(p): return not p["alternate"] and not p["zero_pad"] and p["fill"] is None and p["align"] is None and p["width"] is None
                def prec_ok(p):
                    if prec:
                        # taken from an argument; every precision argument is f.precision()'s value (checked on the compiled body)
                        return isinstance(p["precision"], dict) and p["precision"].get("arg") is not None
                    return p["precision"] is None
                # (which values the placeholders print - hi, the sign character, fabs(lo), in this order - is decided on the compiled body: R53m)
                # (the trait a numeral is rendered with is decided on the compiled body, where a private wrapper type is read through: R53m)
                if p1["trait"] not in (tr, "Display"): errs.append("first numeral uses {:%s} inside %s" % (p1["trait"], tr))
                if (p1["sign"] == "Plus") != bool(plus) or (p1["sign"] not in (None, "Plus")): errs.append("'+' flag on the first numeral is %s in the %s branch" % (p1["sign"], "sign_plus" if plus else "plain"))
                if not prec_ok(p1): errs.append("precision of the first numeral is %s" % (p1["precision"],))
                if not clean(p1): errs.append("extra format options on the first numeral")
                if p2["trait"] != "Display" or p2["sign"] or p2["precision"] or not clean(p2): errs.append("middle placeholder is not a plain character")
                if p3["trait"] not in (tr, "Display"): errs.append("last numeral uses {:%s} inside %s" % (p3["trait"], tr))
                if p3["sign"] is not None: errs.append("last numeral carries a sign flag")
                if not prec_ok(p3): errs.append("precision of the last numeral is %s" % (p3["precision"],))
                if not clean(p3): errs.append("extra format options on the last numeral")
            rep.check(not errs, "R53", inst, "fmt-wiring:%s:%s%s" % (tr, "+" if plus else "", "p" if prec else ""), "%s::fmt %s branch: %s" % (tr, inst, "; ".join(errs)), where=x["span"],
                      detail="'{hi} {sign_char} {|lo|}' trait %s, '+' %s, precision %s" % (tr, "on hi only" if plus else "absent", "forwarded to both numerals" if prec else "absent"))
        rep.check(combos == {(True, True), (True, False), (False, True), (False, False)}, "R53", "%s covers {plain, +, .p, +.p}" % tr, "fmt-combos:" + tr,
                  "%s::fmt does not have one format_args! per flag combination: %s" % (tr, sorted(combos)), nontrivial=False)
    # R53x: per flag combination the three impls use the same template up to the trait of the numerals (X)
    for combo, d in sorted(ast_templates.items()):
        allt = set()
        for tr_, ts in d.items():
            allt |= ts
        rep.check(len(allt) == 1 and len(d) == 3, "R53x", "template agreement plus=%s precision=%s" % combo, "fmt-template:%s:%s" % combo,
                  "the three fmt impls use different templates for the flag combination plus=%s precision=%s: %s" % (combo[0], combo[1], sorted(allt)[:2]),
                  detail="identical placeholders (flags, precision source, literals) in Display/LowerExp/UpperExp, the numerals' trait being the impl's own", nontrivial=False)
    rep.floor("R53", n_sites, 12, "format_args! sites reached from the three fmt impls")

# ------------------------------------------------------------------ R53 (MIR wiring)

CTOR_OF_TRAIT = {"Display": "new_display", "LowerExp": "new_lower_exp", "UpperExp": "new_upper_exp"}

def unwrap_numeral(f, x):
    """an argument `Argument::new_<k><W>(w)` whose type W is a private wrapper of this crate is what W's fmt impl prints:
    when that impl (read with W's type arguments) is a single call of f64's Display / LowerExp / UpperExp on one word of w,
    the argument is equivalent to `Argument::new_<that trait><f64>(word)`"""
    if not (tag(x) == "call" and x[1].startswith("core::fmt::rt::Argument::<>::new_") and len(x) == 3):
        return x
    m = re.match(r"^core::fmt::rt::Argument::<>::new_(\w+)<(.+)>$", x[1])
    if not m or m.group(2) in ("f64", "char", "usize"):
        return x
    ctor, wty = m.group(1), m.group(2)
    trait = {v: k for k, v in CTOR_OF_TRAIT.items()}.get("new_" + ctor)
    if trait is None:
        return x
    base, _, rest = wty.partition("<")
    targs = [a.strip() for a in rest[:-1].split(",")] if rest else []
    for b in f.live:
        if b.trait == "core::fmt::" + trait and b.name == "fmt" and b.self_ty and b.self_ty.partition("<")[0] == base:
            gens = b.generics
            if len(gens) != len(targs):
                continue
            try:
                ex = vg.Exec(f, vg.Policy(f, "op", inline_private=True))
                t = ex.run_body(b, args=[x[2], None], subst=dict(zip(gens, targs)))
            except vg.Unsupported:
                return x
            if t[0] == "leaf" and tag(t[1]) == "call" and len(t[1]) == 4:
                mm = re.search(r"core::fmt::(Display|LowerExp|UpperExp) for f64", t[1][1])
                if mm and t[1][3] is P(1):
                    return mk("call", "core::fmt::rt::Argument::<>::%s<f64>" % CTOR_OF_TRAIT[mm.group(1)], t[1][2])
            return x
    return x

def check_format_mir(rep, f):
    templates = {}
    sitemap = {}
    for tr, ctor in TRAITS.items():
        ident = "<TwoFloat as core::fmt::%s>::fmt" % tr
        b = f.get(ident)
        if b is None:
            rep.fail("R53m", ident, "anchor-lost:" + ident, "%s not found (reason=anchor-lost)" % ident); continue
        try:
            t = H.tree_of(f, b, "op")
        except vg.Unsupported as u:
            rep.fail("R53m", ident, "unsupported:" + ident, "cannot evaluate %s: %s" % (ident, u)); continue
        a = P(0)
        signpos = mk("call", "core::f64::<impl f64>::is_sign_positive", LO(a))
        signneg = mk("call", "core::f64::<impl f64>::is_sign_negative", LO(a))
        errs = []
        n_leaves = 0
        for path, leaf in vg.leaves(t):
            if leaf[0] != "leaf":
                continue
            n_leaves += 1
            pos = None
            for c, v in path:
                if c is signpos: pos = v
                if c is signneg: pos = (not v)
            if pos is None:
                errs.append("a path does not test the sign bit of lo"); continue
            wf = [n for n in all_nodes(leaf[1]) if tag(n) == "call" and n[1].startswith("core::fmt::Arguments::<>::new")]
            if len(wf) != 1:
                errs.append("no single fmt::Arguments on a path"); continue
            tmpl, arr = wf[0][2], wf[0][3]
            items = list(arr[2]) if tag(arr) == "agg" else []
            plus = any(tag(c) == "call" and "sign_plus" in c[1] and v is True for c, v in path)
            prec = any(tag(c) == "discr" and tag(c[1]) == "call" and "precision" in c[1][1] and v == 1 for c, v in path)
            templates.setdefault((plus, prec), {}).setdefault(tr, set()).add(tmpl)
            site = wf[0][-1][1] if tag(wf[0][-1]) == "site" else None
            sitemap.setdefault(tr, {}).setdefault(site, set()).add((plus, prec))
            pv = mk("field", mk("downcast", mk("call", "core::fmt::Formatter::<>::precision", P(1)), "Some"), 0)
            precs = [x for x in items if tag(x) == "call" and x[1].startswith("core::fmt::rt::Argument::<>::from_usize")]
            # two precision arguments, or one shared by both numerals (`{:.p$} .. {:.p$}`); which placeholders use it is on the AST side
            if (prec and (len(precs) not in (1, 2) or any(x[2] is not pv for x in precs))) or (not prec and precs):
                errs.append("precision arguments are not f.precision()'s value for both numerals exactly when a precision was requested")
            if len(items) != 3 + len(precs):
                errs.append("unexpected extra arguments")
            items = [unwrap_numeral(f, x) for x in items]
            nums = [x for x in items if tag(x) == "call" and x[1].startswith("core::fmt::rt::Argument::<>::new_") and x[1].endswith("<f64>")]
            chars = [x for x in items if tag(x) == "call" and x[1] == "core::fmt::rt::Argument::<>::new_display<char>"]
            if len(nums) != 2 or len(chars) != 1:
                errs.append("arguments are not (hi, sign char, |lo|)"); continue
            want = "core::fmt::rt::Argument::<>::%s<f64>" % ctor
            if nums[0][1] != want or nums[1][1] != want:
                errs.append("numerals are not formatted with %s" % tr)
            if nums[0][2] is not HI(a):
                errs.append("first numeral is not the high word")
            if nums[1][2] is not mk("call", "libm::fabs", LO(a)):
                errs.append("last numeral is not libm::fabs(lo)")
            ch = chars[0][2]
            if tag(ch) != "const" or ch[2] != (43 if pos else 45):
                errs.append("sign character is %r when lo's sign bit is %s" % (chr(ch[2]) if tag(ch) == "const" else "?", "clear" if pos else "set"))
            order = [items.index(nums[0]), items.index(chars[0]), items.index(nums[1])]
            if order != sorted(order):
                errs.append("argument order is not hi, sign, lo")
        rep.check(not errs and n_leaves == 8, "R53m", ident, "fmt-mir:" + tr, "%s::fmt wiring: %s (%d paths)" % (tr, "; ".join(sorted(set(errs))), n_leaves), where=H.where(b),
                  detail="8 paths: sign char '+' iff lo's sign bit clear; arguments (hi, sign, fabs(lo)) formatted with %s" % ctor)
    # (agreement of the three impls per flag combination, rule R53x, is decided on the placeholders of the expanded templates:
    #  the compiled templates differ between `{:.*}` and `{:.prec$}` spellings of the same format)
    return sitemap

# ------------------------------------------------------------------ R54 serde

def strv(n):
    if tag(n) == "str":
        return n[1]
    if tag(n) == "deref" and tag(n[1]) == "str":
        return n[1][1]
    return None

def innermost(n, name_part):
    """the unique call whose name contains name_part inside n"""
    hits = [x for x in all_nodes(n) if tag(x) == "call" and name_part in x[1]]
    return hits

PLUMBING = ("next_element", "next_value", "next_key", "ops::Try>::branch", "Option::<T>::ok_or_else", "Option::<T>::ok_or", "Option::<T>::unwrap", "Option::<T>::expect", "Option::<T>::take")

def plumbing_only(term, stop=()):
    """the value reaches try_from untouched: only Option/Result plumbing between the reader call and the tuple"""
    for n in all_nodes(term):
        if n in stop:
            continue
        if tag(n) in ("f", "i", "cast", "cmp", "not"):
            return False
        if tag(n) == "call" and not any(x in n[1] for x in PLUMBING):
            return False
    return True

TRYFROM = "<TwoFloat as core::convert::TryFrom<(f64, f64)>>::try_from"

def ok_value_source(v, path):
    """the tuple handed to TwoFloat::try_from when `v` is that call's Ok payload passed on (explicit match on the
    result, or Result::map_err kept opaque); None for any other way of producing a value"""
    if tag(v) == "call" and "map_err" in v[1] and tag(v[2]) == "call" and v[2][1] == TRYFROM:
        return v[2][2]
    if tag(v) == "agg" and v[1][0] == "adt" and v[1][3] == "Ok" and len(v[2]) == 1:
        x = v[2][0]
        if tag(x) == "field" and x[2] == 0 and tag(x[1]) == "downcast" and x[1][2] == "Ok" and tag(x[1][1]) == "call" and x[1][1][1] == TRYFROM:
            tf = x[1][1]
            if any(tag(c) == "discr" and c[1] is tf and val == 0 for c, val in path):
                return tf[2]
    return None

def is_err_leaf(v):
    return (tag(v) == "agg" and v[1][0] == "adt" and v[1][3] == "Err") or (tag(v) == "call" and "from_residual" in v[1])

def none_tested(path):
    """the Option terms whose discriminant is None (0) on the path, innermost last"""
    return [c[1] for c, val in path if tag(c) == "discr" and (val == 0 or val == "other")]

def check_serde(rep, f, sfx=""):
    ser = f.get("<TwoFloat as serde::Serialize>::serialize")
    if ser is None:
        rep.fail("R54", "Serialize" + sfx, "anchor-lost:serialize", "impl Serialize for TwoFloat not found in the serde configuration (reason=anchor-lost)"); return
    t = H.tree_of(f, ser, "op")
    a = P(0)
    ends = [l for _, l in vg.leaves(t) if l[0] == "leaf" and tag(l[1]) == "call" and "SerializeStruct::end" in l[1][1]]
    ok = False; detail = None
    if len(ends) == 1:
        fields = [x for x in all_nodes(ends[0][1]) if tag(x) == "call" and "serialize_field" in x[1]]
        st = [x for x in all_nodes(ends[0][1]) if tag(x) == "call" and "serialize_struct" in x[1]]
        if len(fields) == 2 and len(st) == 1:
            # order: the second call's state argument is the first call's after-state
            first = [x for x in fields if not any(y is not x and y in all_nodes(x) for y in fields)]
            second = [x for x in fields if x not in first]
            if len(first) == 1 and len(second) == 1:
                f1, f2 = first[0], second[0]
                detail = {"struct": (strv(st[0][3]), vg.show(st[0][4])), "fields": [(strv(f1[3]), vg.show(f1[4])), (strv(f2[3]), vg.show(f2[4]))]}
                ok = strv(f1[3]) == "hi" and f1[4] is HI(a) and strv(f2[3]) == "lo" and f2[4] is LO(a) and tag(st[0][4]) == "const" and st[0][4][2] == 2
    rep.check(ok, "R54", "Serialize writes struct{hi, lo}" + sfx, "serde-writer", "Serialize does not emit a two-field struct (\"hi\" = self.hi, then \"lo\" = self.lo): %s" % (detail,), where=H.where(ser), detail=detail)
    # other Ok-producing leaves must not exist
    # reader: field identifier
    vs = [b for b in f.live if b.name == "visit_str" and b.trait == "serde::de::Visitor" and b.kind != "Closure"]
    variants = {}
    if len(vs) != 1:
        rep.fail("R54", "field visitor" + sfx, "anchor-lost:visit_str", "field identifier visitor not found (reason=anchor-lost)")
    else:
        t = H.tree_of(f, vs[0], "op")
        outs = D.all_outcomes(t)
        table = {}
        unknown_ok = True
        for env, leaf in outs:
            trues = [strv(v[1][3]) for v, x in env.val.items() if v[0] == "bool" and x is True and tag(v[1]) == "call" and "PartialEq for str" in v[1][1]]
            if leaf[0] == "leaf" and tag(leaf[1]) == "agg" and leaf[1][1][3] == "Ok":
                fv = leaf[1][2][0]
                name = fv[1][3] if tag(fv) == "agg" else None
                idx = fv[1][2] if tag(fv) == "agg" else None
                for s_ in trues[:1]:
                    table[s_] = name
                    variants[idx] = name
                if not trues:
                    unknown_ok = False
            elif leaf[0] == "leaf" and tag(leaf[1]) == "agg" and leaf[1][1][3] == "Err":
                if not any(tag(n) == "call" and "unknown_field" in n[1] for n in all_nodes(leaf[1])):
                    unknown_ok = False
        rep.check(table == {"hi": "Hi", "lo": "Lo"} and unknown_ok, "R54", "field names" + sfx, "serde-fields",
                  "the field visitor maps %s (expected exactly \"hi\" -> Hi, \"lo\" -> Lo, anything else -> unknown_field)" % table, where=H.where(vs[0]), detail=table)
    # visit_seq
    sq = [b for b in f.live if b.name == "visit_seq" and b.trait == "serde::de::Visitor" and b.kind != "Closure"]
    if len(sq) != 1:
        rep.fail("R54", "visit_seq" + sfx, "anchor-lost:visit_seq", "visit_seq not found (reason=anchor-lost)")
    else:
        t = H.tree_of(f, sq[0], "op")
        oks = []; bad = []; lens = []
        for path, leaf in vg.leaves(t):
            if leaf[0] != "leaf":
                continue
            v = leaf[1]
            src = ok_value_source(v, path)
            if src is not None:
                oks.append(src)
            elif is_err_leaf(v):
                il = [n for n in all_nodes(v) if tag(n) == "call" and "invalid_length" in n[1]]
                if il and tag(il[0][2]) == "const":
                    nt = none_tested(path)
                    lens.append((il[0][2][2], nt[-1] if nt else None))
            else:
                bad.append(v)
        ok = len(oks) == 1 and not bad
        detail = None
        if ok:
            tup = oks[0]
            e0, e1 = tup[2][0], tup[2][1]
            n0 = innermost(e0, "next_element"); n1 = innermost(e1, "next_element")
            # e0 must depend on exactly the first next_element(seq), e1 on the second (whose access is the first's after-state)
            first = [x for x in n0 if x[2] is P(1)]
            ok = len(n0) == 1 and len(first) == 1 and len(n1) == 2 and first[0] in n1 and plumbing_only(e0) and plumbing_only(e1)
            second = [x for x in n1 if x not in n0]
            # a missing element k is reported as invalid_length(k): read from the error leaves (explicit form) or from the closures
            idx = [None, None]
            for k_, opt in lens:
                for j, nn in enumerate((first[:1], second[:1])):
                    if nn and opt is not None and nn[0] in set(all_nodes(opt)) and not any(o is not nn[0] and o in set(all_nodes(opt)) for o in (second[:1] if j == 0 else [])):
                        idx[j] = k_ if idx[j] is None else idx[j]
            if idx == [None, None]:
                cl0 = [x for x in all_nodes(e0) if tag(x) == "agg" and x[1][0] == "closure"]
                cl1 = [x for x in all_nodes(e1) if tag(x) == "agg" and x[1][0] == "closure" and x not in cl0]
                idx = []
                for cl in (cl0, cl1):
                    found = []
                    for c in cl:
                        cb = f.by_key.get(c[1][1])
                        ct = H.tree_of(f, cb, "op") if cb else None
                        calls = [n for n in all_nodes(ct[1]) if tag(n) == "call" and "invalid_length" in n[1]] if ct and ct[0] == "leaf" else []
                        found += [calls[0][2][2] if tag(calls[0][2]) == "const" else None] if calls else []
                    idx.append(found[0] if len(found) == 1 else None)
            detail = {"element0": "first next_element", "element1": "second next_element", "invalid_length": idx}
            ok = ok and idx == [0, 1]
        rep.check(ok, "R54", "visit_seq passes (element 0, element 1) to try_from" + sfx, "serde-seq", "visit_seq does not hand element 0 and element 1, in order, to TwoFloat::try_from (or has another way to Ok): %s %s" % (detail, [vg.show(x)[:80] for x in bad]),
                  where=H.where(sq[0]), detail=detail)
    # visit_map (loop: havoc analysis)
    vm = [b for b in f.live if b.name == "visit_map" and b.trait == "serde::de::Visitor" and b.kind != "Closure"]
    if len(vm) != 1:
        rep.fail("R54", "visit_map" + sfx, "anchor-lost:visit_map", "visit_map not found (reason=anchor-lost)")
    else:
        check_visit_map(rep, f, vm[0], variants, sfx)
    de = f.get("<TwoFloat as serde::Deserialize>::deserialize")
    if de is not None:
        t = H.tree_of(f, de, "op")
        ok = t[0] == "leaf" and tag(t[1]) == "call" and "deserialize_struct" in t[1][1] and strv(t[1][3]) == "TwoFloat"
        rep.check(ok, "R54", "Deserialize goes through deserialize_struct" + sfx, "serde-entry", "Deserialize::deserialize is not deserialize_struct(\"TwoFloat\", .., visitor): %s" % vg.show(t)[:200], where=H.where(de), nontrivial=False)

def check_visit_map(rep, f, b, variants, sfx):
    ex = vg.Exec(f, vg.Policy(f, "op", keep=H.primitive_idents(f), inline_private=True), loops="havoc")
    try:
        t = ex.run_body(b)
    except vg.Unsupported as u:
        rep.fail("R54", "visit_map" + sfx, "unsupported:visit_map", "cannot analyse visit_map: %s" % u, where=H.where(b)); return
    entry = [e for e in ex.loop_entries if e[0] == b.ident()]
    if not entry:
        rep.fail("R54", "visit_map" + sfx, "visit-map-loop", "visit_map has no key loop", where=H.where(b)); return
    ent = entry[0][2]
    def none_like(v):
        return (tag(v) == "agg" and v[1][0] == "adt" and v[1][3] == "None") or \
               (tag(v) == "call" and v[1].startswith("<core::option::Option<T> as core::default::Default>::default") and len(v) == 2)
    # accumulators: Option<f64> locals, or Option fields of one carrier struct, that start out empty
    slots = {}
    for l, (before, hv) in ent.items():
        if none_like(before) and "Option<f64>" in hv[2]:
            slots[hv] = (l, None)
        elif tag(before) == "agg" and before[1][0] == "adt" and before[1][1] != "core::option::Option":
            for i, x in enumerate(before[2]):
                if x is not None and none_like(x):
                    slots[mk("field", hv, i)] = (l, i)
        elif tag(before) == "agg" and before[1][0] == "array":
            for i, x in enumerate(before[2]):
                if x is not None and none_like(x):
                    slots[mk("index", hv, mk("const", "usize", i))] = (l, ("idx", i))
    def slot_after(snap, slot):
        l, i = slots[slot]
        nv = snap.get(l)
        if i is None or nv is None:
            return nv
        if isinstance(i, tuple):
            k_ = i[1]
            if tag(nv) == "agg" and k_ < len(nv[2]) and nv[2][k_] is not None:
                return nv[2][k_]
            return mk("index", nv, mk("const", "usize", k_))
        if tag(nv) == "agg" and i < len(nv[2]) and nv[2][i] is not None:
            return nv[2][i]
        return mk("field", nv, i)
    errs = []
    if len(slots) != 2:
        errs.append("expected two Option<f64> accumulators initialised to None, found %d" % len(slots))
    oks = []; dup = {}; upd = {}; missing = {}
    def closure_field(n):
        for c in all_nodes(n):
            if tag(c) == "agg" and c[1][0] == "closure":
                cb = f.by_key.get(c[1][1])
                if cb is None:
                    continue
                ct = H.tree_of(f, cb, "op")
                for m in all_nodes(ct[1]) if ct[0] == "leaf" else []:
                    if tag(m) == "call" and "missing_field" in m[1]:
                        return strv(m[2])
        return None
    for path, leaf in vg.leaves(t):
        var = None
        for c, v in path:
            if tag(c) == "discr" and tag(c[1]) == "field" and tag(c[1][1]) == "downcast" and c[1][1][2] == "Some" and isinstance(v, int):
                var = variants.get(v, v)
        if leaf[0] == "backedge":
            snap = dict(leaf[3])
            changed = {}
            for hv in slots:
                nv = slot_after(snap, hv)
                if nv is not hv:
                    changed[hv] = nv
            upd[var] = changed
        elif leaf[0] == "leaf":
            v = leaf[1]
            src = ok_value_source(v, path)
            if src is not None:
                oks.append(src)
            elif is_err_leaf(v):
                d = [n for n in all_nodes(v) if tag(n) == "call" and "duplicate_field" in n[1]]
                if d:
                    # the accumulator found occupied: `x.is_some()` kept opaque, or the discriminant test it is
                    tested = [c[2] for c, x in path if x is True and tag(c) == "call" and "is_some" in c[1]]
                    tested += [c[1] for c, x in path if tag(c) == "discr" and x == 1 and c[1] in slots]
                    tested += [c[3][1] for c, x in path if x is True and tag(c) == "cmp" and c[1] == "eq" and tag(c[3]) == "discr" and c[3][1] in slots
                               and tag(c[4]) == "const" and c[4][2] == 1]
                    dup[var] = (strv(d[0][2]), tested[-1] if tested else None)
                mf = [n for n in all_nodes(v) if tag(n) == "call" and "missing_field" in n[1]]
                if mf:
                    nt = [o for o in none_tested(path) if o in slots]
                    if nt:
                        missing[nt[-1]] = strv(mf[0][2])
            else:
                errs.append("unexpected result %s" % vg.show(v)[:100])
    if len(oks) != 1:
        errs.append("%d paths produce a TwoFloat (expected exactly one, through TwoFloat::try_from)" % len(oks))
    else:
        tup = oks[0]
        comps = []
        for comp in tup[2]:
            hvs = [n for n in all_nodes(comp) if n in slots]
            h_ = hvs[0] if len(set(hvs)) == 1 else None
            comps.append((h_, missing.get(h_) or closure_field(comp)))
        (h_hi, m_hi), (h_lo, m_lo) = comps
        if not all(plumbing_only(comp) for comp in tup[2]):
            errs.append("an accumulated word is modified on its way to try_from")
        if h_hi is None or h_lo is None or h_hi is h_lo:
            errs.append("tuple components do not come from the two distinct accumulators")
        if (m_hi, m_lo) != ("hi", "lo"):
            errs.append("missing_field names are %r" % ((m_hi, m_lo),))
        for vname, hv, fname in (("Hi", h_hi, "hi"), ("Lo", h_lo, "lo")):
            u = upd.get(vname)
            if u is None or set(u) != {hv} or not (tag(u[hv]) == "agg" and u[hv][1][3] == "Some" and any(tag(n) == "call" and "next_value" in n[1] for n in all_nodes(u[hv])) and plumbing_only(u[hv])):
                errs.append("key %s does not store next_value() into (only) the %s accumulator" % (vname, fname))
            dd = dup.get(vname)
            if dd is None or dd[0] != fname or dd[1] is not hv:
                errs.append("key %s does not reject a duplicate with duplicate_field(\"%s\") after testing its own accumulator" % (vname, fname))
    rep.check(not errs, "R54", "visit_map slices" + sfx, "serde-map", "visit_map: " + "; ".join(errs), where=H.where(b),
              detail="hi/lo accumulators start None; key Hi/Lo: duplicate -> duplicate_field, else store next_value into its own slot; absent -> missing_field; only TwoFloat::try_from((hi, lo)) yields Ok")
