#!/usr/bin/env python3
"""Evaluate many patches in parallel on scratch copies of /repo (never touches /repo itself).
usage: tools/bulk_eval.py <seeds|refs> <dir> [<dir> ...]   -> prints one line per patch, writes /tmp/bulk_<kind>.json"""
import concurrent.futures, json, os, shutil, subprocess, sys, tempfile
kind = sys.argv[1]; roots = sys.argv[2:]
ALL = ["C%02d" % i for i in range(1, 21)]
def items():
    for root in roots:
        for d in sorted(os.listdir(root)):
            p = os.path.join(root, d, "patch.diff")
            if os.path.exists(p):
                yield root, d, p
def run(it):
    root, d, p = it
    tmp = tempfile.mkdtemp(prefix="tfbulk-")
    try:
        repo = os.path.join(tmp, "repo"); out = os.path.join(tmp, "out")
        os.makedirs(repo); os.makedirs(out)
        shutil.copytree("/repo/src", os.path.join(repo, "src"))
        for f in ("Cargo.toml", "Cargo.lock"):
            shutil.copy(os.path.join("/repo", f), os.path.join(repo, f))
        r = subprocess.run(["patch", "-p1", "-s", "--no-backup-if-mismatch", "-i", p], cwd=repo, capture_output=True, text=True)
        if r.returncode != 0:
            return root, d, None, "patch does not apply"
        env = dict(os.environ, TF_REPO=repo, TF_OUT=out)
        fired = {}
        for c in ALL:
            r = subprocess.run(["/verif/check", c], capture_output=True, text=True, env=env)
            if r.returncode != 0:
                fired[c] = sorted({l.split("rule=")[1].split()[0] for l in r.stdout.splitlines() if "rule=" in l}) or ["?"]
        return root, d, fired, None
    finally:
        shutil.rmtree(tmp, ignore_errors=True)
res = {}
with concurrent.futures.ThreadPoolExecutor(max_workers=8) as ex:
    for root, d, fired, err in ex.map(run, list(items())):
        key = os.path.basename(root.rstrip("/")) + "/" + d
        res[key] = fired if err is None else {"error": err}
        if err:
            print("%-22s %s" % (key, err)); continue
        if kind == "seeds":
            prop = d.split("-")[0]
            print("%-22s %s %s" % (key, "CAUGHT" if prop in fired else ("caught-elsewhere" if fired else "MISSED"), fired))
        else:
            print("%-22s %s %s" % (key, "SILENT" if not fired else "FALSE-ALARM", fired if fired else ""))
        sys.stdout.flush()
json.dump(res, open("/tmp/bulk_%s.json" % kind, "w"), indent=1)
