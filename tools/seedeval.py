#!/usr/bin/env python3
"""Apply each seeded defect to /repo, run every quick check, record which fire, restore /repo.
usage: tools/seedeval.py <dir-with-seeds> [ID ...]"""
import json, os, subprocess, sys
ENV = dict(os.environ, TF_OUT="/tmp/tfout-scratch")
root = sys.argv[1]
only = set(sys.argv[2:])
ALL = ["C%02d" % i for i in range(1, 21)]
res = {}
for d in sorted(os.listdir(root)):
    p = os.path.join(root, d, "patch.diff")
    if not os.path.exists(p) or (only and d not in only):
        continue
    st = subprocess.run(["git", "-C", "/repo", "status", "--porcelain"], capture_output=True, text=True).stdout.strip()
    assert not st, "repo dirty: " + st
    a = subprocess.run(["git", "-C", "/repo", "apply", p], capture_output=True, text=True)
    if a.returncode != 0:
        print(d, "PATCH DOES NOT APPLY", a.stderr[:200]); continue
    fired = {}
    try:
        for c in ALL:
            r = subprocess.run(["/verif/check", c], capture_output=True, text=True, env=ENV)
            if r.returncode != 0:
                rules = sorted({l.split("rule=")[1].split()[0] for l in r.stdout.splitlines() if "rule=" in l})
                fired[c] = rules
    finally:
        subprocess.run(["git", "-C", "/repo", "checkout", "--", "."])
    prop = d.split("-")[0]
    meta = {}
    try:
        meta = json.load(open(os.path.join(root, d, "meta.json")))
    except Exception:
        pass
    res[d] = fired
    print("%-8s target=%s %s  fired=%s  | %s" % (d, prop, "CAUGHT" if prop in fired else ("caught-elsewhere" if fired else "MISSED"), fired, meta.get("summary", "")[:110]))
json.dump(res, open("/tmp/seedeval.json", "w"), indent=1)
