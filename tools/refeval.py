#!/usr/bin/env python3
"""Apply each behaviour-preserving refactoring to /repo, run every quick check, expect silence."""
import json, os, subprocess, sys
ENV = dict(os.environ, TF_OUT="/tmp/tfout-scratch")
root = sys.argv[1]; only = set(sys.argv[2:])
ALL = ["C%02d" % i for i in range(1, 21)]
res = {}
for d in sorted(os.listdir(root)):
    p = os.path.join(root, d, "patch.diff")
    if not os.path.exists(p) or (only and d not in only):
        continue
    st = subprocess.run(["git", "-C", "/repo", "status", "--porcelain"], capture_output=True, text=True).stdout.strip()
    assert not st, "repo dirty: " + st
    a = subprocess.run(["git", "-C", "/repo", "apply", p], capture_output=True, text=True)
    if a.returncode != 0:
        print(d, "PATCH DOES NOT APPLY", a.stderr[:200]); continue
    fired = {}
    try:
        for c in ALL:
            r = subprocess.run(["/verif/check", c], capture_output=True, text=True, env=ENV)
            if r.returncode != 0:
                lines = [l.strip() for l in r.stdout.splitlines() if l.startswith("  ")]
                fired[c] = lines[:6]
    finally:
        subprocess.run(["git", "-C", "/repo", "checkout", "--", "."])
    res[d] = fired
    meta = {}
    try: meta = json.load(open(os.path.join(root, d, "meta.json")))
    except Exception: pass
    print("%-6s %s | %s" % (d, "SILENT" if not fired else "FALSE-ALARM " + ",".join(sorted(fired)), meta.get("summary", "")[:120]))
    for c, lines in fired.items():
        for l in lines[:4]:
            print("        ", c, l[:300])
json.dump(res, open("/tmp/refeval.json", "w"), indent=1)
