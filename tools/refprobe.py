#!/usr/bin/env python3
"""behaviour-preserving edit probe: tools/refprobe.py '<file>' '<old>' '<new>' [more triples...]; runs all checks, expects silence"""
import os, subprocess, sys
ENV = dict(os.environ, TF_OUT="/tmp/tfout-scratch")
a = sys.argv[1:]
files = set()
for i in range(0, len(a), 3):
    f, old, new = a[i:i+3]
    p = "/repo/" + f
    s = open(p).read()
    if old not in s:
        print("pattern not found in", f); subprocess.run(["git", "-C", "/repo", "checkout", "--", "."]); sys.exit(2)
    open(p, "w").write(s.replace(old, new))
    files.add(f)
try:
    bad = []
    for c in ["C%02d" % i for i in range(1, 21)]:
        r = subprocess.run(["/verif/check", c], capture_output=True, text=True, env=ENV)
        if r.returncode != 0:
            lines = [l for l in r.stdout.splitlines() if l.startswith("  rule=") or l.startswith("  ")][:4]
            bad.append((c, lines))
    if not bad:
        print("SILENT (ok)")
    for c, lines in bad:
        print("ALARM", c)
        for l in lines:
            print("    ", l[:260])
finally:
    subprocess.run(["git", "-C", "/repo", "checkout", "--", "."])
