#!/usr/bin/env python3
"""Regenerates /verif/MANIFEST.json from tfcheck/registry.py (single source of truth)."""
import json, os, sys
sys.path.insert(0, os.path.dirname(os.path.dirname(os.path.abspath(__file__))))
from tfcheck import registry

ALL = ["C%02d" % i for i in range(1, 21)]
PENDING_REASON = "check not yet registered in this revision (static-analysis rules for it are designed in DESIGN.md section 4 and are being built); not claimed until it runs"

def main():
    checks = []
    for pid in sorted(registry.PROPS):
        fn, level, rule, expl, assume = registry.PROPS[pid]
        tech = registry.TECHNIQUE.get(pid, "static analysis: MIR value-graph conformance") if hasattr(registry, "TECHNIQUE") else "static analysis: MIR value-graph conformance"
        checks.append({
            "property_id": pid,
            "quick_cmd": "./check %s --tier quick" % pid,
            "thorough_cmd": "./check %s --tier thorough" % pid,
            "evidence_file": "/verif/evidence/%s.json" % pid,
            "replay_cmd_template": "./check %s --replay {path}" % pid,
            "engine": "tfcheck",
            "level_claimed": {"category": level, "text": expl, "design_ref": "DESIGN.md section 4, %s" % pid},
            "level_note": "; ".join(assume),
            "technique": tech,
        })
    na = []
    extra = getattr(registry, "NOT_APPLICABLE", {})
    for pid in ALL:
        if pid not in registry.PROPS:
            na.append({"property_id": pid, "reason": extra.get(pid, PENDING_REASON)})
    man = {
        "version": 1,
        "setup_cmd": "cd /verif/tfmir && CARGO_NET_OFFLINE=true cargo build --release --offline",
        "hooks": {
            "guard": "none",
            "enable": "no hooks: static analysis reads the crate as it is (rustc_private driver injected with RUSTC_WORKSPACE_WRAPPER under cargo +nightly check)",
            "baseline_off_cmd": "cd /repo && cargo test --workspace --no-fail-fast --offline",
            "source_commits": [],
            "add_only": True,
        },
        "engines": [
            {"name": "tfmir", "path": "/verif/tfmir", "serves_properties": sorted(registry.PROPS),
             "kind_free_text": "rustc_private fact extractor: structured MIR with resolved callees, const-evaluated constants, foreign panic summaries, impl inventory, expanded-AST format_args"},
            {"name": "tfcheck", "path": "/verif/tfcheck", "serves_properties": sorted(registry.PROPS),
             "kind_free_text": "Python rule engine over the facts: symbolic MIR evaluation to hash-consed value graphs / decision trees, IEEE-exact normal forms (algebra E/Z), reference-form conformance, sibling cross-checks, constant oracle (mpmath), panic-site discharge"},
        ],
        "checks": checks,
        "not_applicable": na,
        "notes": "Technique family: static analysis only. Every check re-extracts facts from /repo's current working tree (content-addressed cache under /verif/.cache). Fix commits for genuine defects are listed in /verif/known_findings.txt.",
    }
    with open(os.path.join(os.path.dirname(os.path.dirname(os.path.abspath(__file__))), "MANIFEST.json"), "w") as fh:
        json.dump(man, fh, indent=1)
    print("MANIFEST.json: %d checks, %d not_applicable" % (len(checks), len(na)))

main()
