#!/usr/bin/env python3
"""quick manual mutation probe: tools/mut.py <file> <old> <new> <CHECK>... ; applies to /repo, runs checks, restores"""
import os, subprocess, sys
ENV = dict(os.environ, TF_OUT="/tmp/tfout-scratch")
f, old, new = sys.argv[1:4]
checks = sys.argv[4:]
p = "/repo/" + f
s = open(p).read()
n = s.count(old)
if n == 0:
    print("pattern not found"); sys.exit(2)
open(p, "w").write(s.replace(old, new, 1))
try:
    for c in checks:
        r = subprocess.run(["/verif/check", c], capture_output=True, text=True, env=ENV)
        lines = [l for l in r.stdout.splitlines() if l.startswith("VIOLATION") or l.startswith("  rule=")]
        print("%s exit=%d %s" % (c, r.returncode, r.stdout.strip().splitlines()[-1] if r.stdout.strip() else r.stderr[-300:]))
        for l in lines[:4]:
            print("     ", l[:220])
finally:
    subprocess.run(["git", "-C", "/repo", "checkout", "--", f])
