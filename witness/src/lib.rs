//! Compile-fail witnesses for C01/R3: an external crate can neither build a `TwoFloat` from raw
//! words nor read or overwrite a word in place.  Every witness has a compiling twin that differs
//! only in the offending line, so a witness that fails for an unrelated reason (wrong path,
//! missing item) is detected.  Run with `cargo +nightly test --doc` (error codes are checked on
//! nightly only).  The twins are `no_run`: nothing of twofloat is executed.

/// Struct-literal construction from outside the crate must not type-check (private fields).
/// ```compile_fail,E0451
/// let x = twofloat::TwoFloat { hi: 1.0, lo: 0.75 };
/// ```
/// Twin: the checked constructor compiles.
/// ```no_run
/// let x = twofloat::TwoFloat::try_from((1.0, 0.75));
/// ```
pub struct NoLiteral;

/// Reading a word as a field must not type-check.
/// ```compile_fail,E0616
/// let x = twofloat::TwoFloat::from(1.0);
/// let h: f64 = x.hi;
/// ```
/// Twin: the accessor compiles.
/// ```no_run
/// let x = twofloat::TwoFloat::from(1.0);
/// let h: f64 = x.hi();
/// ```
pub struct NoFieldRead;

/// Overwriting a word in place must not type-check.
/// ```compile_fail,E0616
/// let mut x = twofloat::TwoFloat::from(1.0);
/// x.lo = 0.75;
/// ```
/// Twin: replacing the whole value through the API compiles.
/// ```no_run
/// let mut x = twofloat::TwoFloat::from(1.0);
/// x = twofloat::TwoFloat::new_add(1.0, 0.75);
/// # let _ = x;
/// ```
pub struct NoFieldWrite;

/// Functional-update syntax must not type-check either.
/// ```compile_fail,E0451
/// let x = twofloat::TwoFloat::from(1.0);
/// let y = twofloat::TwoFloat { lo: 0.75, ..x };
/// ```
/// Twin:
/// ```no_run
/// let x = twofloat::TwoFloat::from(1.0);
/// let y = x;
/// # let _ = y;
/// ```
pub struct NoFunctionalUpdate;

/// The private primitives are not reachable from outside.
/// ```compile_fail,E0603
/// let x = twofloat::arithmetic::fast_two_sum(1.0, 0.75);
/// ```
/// Twin:
/// ```no_run
/// let x = twofloat::TwoFloat::new_add(1.0, 0.75);
/// ```
pub struct NoPrivatePrimitives;
