//! Minimal JSON value + writer (the driver has no cargo dependencies).
use std::fmt::Write;

#[derive(Clone, Debug)]
pub enum J {
    Null,
    Bool(bool),
    Int(i128),
    Str(String),
    Arr(Vec<J>),
    Obj(Vec<(String, J)>),
}

impl J {
    pub fn s<S: Into<String>>(s: S) -> J {
        J::Str(s.into())
    }
    pub fn obj() -> J {
        J::Obj(Vec::new())
    }
    pub fn set<S: Into<String>>(mut self, k: S, v: J) -> J {
        if let J::Obj(ref mut o) = self {
            o.push((k.into(), v));
        }
        self
    }
    pub fn put<S: Into<String>>(&mut self, k: S, v: J) {
        if let J::Obj(ref mut o) = self {
            o.push((k.into(), v));
        }
    }
    pub fn write(&self, out: &mut String) {
        match self {
            J::Null => out.push_str("null"),
            J::Bool(b) => out.push_str(if *b { "true" } else { "false" }),
            J::Int(i) => {
                let _ = write!(out, "{}", i);
            }
            J::Str(s) => write_str(s, out),
            J::Arr(a) => {
                out.push('[');
                for (i, x) in a.iter().enumerate() {
                    if i > 0 {
                        out.push(',');
                    }
                    x.write(out);
                }
                out.push(']');
            }
            J::Obj(o) => {
                out.push('{');
                for (i, (k, v)) in o.iter().enumerate() {
                    if i > 0 {
                        out.push(',');
                    }
                    write_str(k, out);
                    out.push(':');
                    v.write(out);
                }
                out.push('}');
            }
        }
    }
}

fn write_str(s: &str, out: &mut String) {
    out.push('"');
    for c in s.chars() {
        match c {
            '"' => out.push_str("\\\""),
            '\\' => out.push_str("\\\\"),
            '\n' => out.push_str("\\n"),
            '\r' => out.push_str("\\r"),
            '\t' => out.push_str("\\t"),
            c if (c as u32) < 0x20 => {
                let _ = write!(out, "\\u{:04x}", c as u32);
            }
            c => out.push(c),
        }
    }
    out.push('"');
}
