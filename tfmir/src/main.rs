//! tfmir — fact extractor for the twofloat static checks.
//!
//! Used as RUSTC_WORKSPACE_WRAPPER under `cargo +nightly check`.  For the crate named by
//! TFMIR_CRATE (default `twofloat`) it writes one JSON file $TFMIR_OUT/<crate>.json with
//!   * every function/closure body as structured MIR (callees resolved),
//!   * every const item const-evaluated to raw bytes,
//!   * panic summaries of foreign callees whose MIR is available,
//!   * the trait-impl inventory,
//!   * every `format_args!` of the expanded AST.
//! Nothing of the analysed crate is executed.
#![feature(rustc_private)]
#![allow(clippy::all)]

extern crate rustc_abi;
extern crate rustc_ast;
extern crate rustc_ast_pretty;
extern crate rustc_driver;
extern crate rustc_hir;
extern crate rustc_interface;
extern crate rustc_middle;
extern crate rustc_span;

mod astfacts;
mod json;
mod mirfacts;

use json::J;
use rustc_driver::{Callbacks, Compilation};
use rustc_hir::def_id::LOCAL_CRATE;
use rustc_interface::interface::Compiler;
use rustc_middle::ty::TyCtxt;

struct Cb {
    target: String,
    out_dir: Option<String>,
    ast: Option<J>,
}

impl Callbacks for Cb {
    fn after_expansion<'tcx>(&mut self, _c: &Compiler, tcx: TyCtxt<'tcx>) -> Compilation {
        if self.out_dir.is_some() && tcx.crate_name(LOCAL_CRATE).as_str() == self.target {
            self.ast = Some(astfacts::collect(tcx));
        }
        Compilation::Continue
    }

    fn after_analysis<'tcx>(&mut self, _c: &Compiler, tcx: TyCtxt<'tcx>) -> Compilation {
        let Some(out_dir) = self.out_dir.clone() else {
            return Compilation::Continue;
        };
        if tcx.crate_name(LOCAL_CRATE).as_str() != self.target {
            return Compilation::Continue;
        }
        let mut root = mirfacts::collect(tcx);
        root.put("ast", self.ast.take().unwrap_or(J::Null));
        let mut s = String::new();
        root.write(&mut s);
        let path = format!("{}/{}.json", out_dir, self.target);
        let tmp = format!("{}.tmp{}", path, std::process::id());
        std::fs::write(&tmp, s).expect("tfmir: cannot write facts");
        std::fs::rename(&tmp, &path).expect("tfmir: cannot rename facts");
        Compilation::Continue
    }
}

fn main() {
    let mut args: Vec<String> = std::env::args().collect();
    // RUSTC_WORKSPACE_WRAPPER passes the real rustc path as argv[1]
    if args.len() > 1 && (args[1].ends_with("rustc") || args[1].contains("/rustc")) {
        args.remove(1);
    }
    let mut cb = Cb {
        target: std::env::var("TFMIR_CRATE").unwrap_or_else(|_| "twofloat".to_string()),
        out_dir: std::env::var("TFMIR_OUT").ok(),
        ast: None,
    };
    rustc_driver::run_compiler(&args, &mut cb);
}
