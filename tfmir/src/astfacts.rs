//! Facts from the expanded AST: every `format_args!` with its enclosing impl / fn and the
//! chain of enclosing `if` / `match` conditions; crate-level lint attributes.
use rustc_ast as ast;
use rustc_ast::visit::{self, Visitor};
use rustc_ast_pretty::pprust;
use rustc_middle::ty::TyCtxt;

use crate::json::J;
use crate::mirfacts::{span_str, user_span_str};

struct V<'a, 'tcx> {
    tcx: TyCtxt<'tcx>,
    impl_stack: Vec<(String, String)>, // (trait, self)
    fn_stack: Vec<String>,
    mod_stack: Vec<String>,
    conds: Vec<J>,
    out: &'a mut Vec<J>,
    in_test_mod: usize,
}

fn is_cfg_test(attrs: &[ast::Attribute]) -> bool {
    attrs.iter().any(|a| {
        let s = pprust::attribute_to_string(a);
        s.contains("cfg(test)") || s.contains("test)") && s.contains("cfg(")
    })
}

impl<'a, 'tcx> V<'a, 'tcx> {
    fn fmt_args(&mut self, fa: &ast::FormatArgs, e: &ast::Expr) {
        let mut pieces = Vec::new();
        for p in fa.template.iter() {
            match p {
                ast::FormatArgsPiece::Literal(s) => {
                    pieces.push(J::obj().set("lit", J::s(s.to_string())));
                }
                ast::FormatArgsPiece::Placeholder(ph) => {
                    let mut o = J::obj();
                    o.put(
                        "arg",
                        match ph.argument.index {
                            Ok(i) => J::Int(i as i128),
                            Err(_) => J::Null,
                        },
                    );
                    o.put("trait", J::s(format!("{:?}", ph.format_trait)));
                    let fo = &ph.format_options;
                    o.put(
                        "sign",
                        match fo.sign {
                            Some(s) => J::s(format!("{:?}", s)),
                            None => J::Null,
                        },
                    );
                    o.put("alternate", J::Bool(fo.alternate));
                    o.put("zero_pad", J::Bool(fo.zero_pad));
                    o.put(
                        "fill",
                        match fo.fill {
                            Some(c) => J::s(c.to_string()),
                            None => J::Null,
                        },
                    );
                    o.put(
                        "align",
                        match fo.alignment {
                            Some(a) => J::s(format!("{:?}", a)),
                            None => J::Null,
                        },
                    );
                    let cnt = |c: &Option<ast::FormatCount>| match c {
                        None => J::Null,
                        Some(ast::FormatCount::Literal(n)) => J::obj().set("lit", J::Int(*n as i128)),
                        Some(ast::FormatCount::Argument(p)) => J::obj().set(
                            "arg",
                            match p.index {
                                Ok(i) => J::Int(i as i128),
                                Err(_) => J::Null,
                            },
                        ),
                    };
                    o.put("precision", cnt(&fo.precision));
                    o.put("width", cnt(&fo.width));
                    pieces.push(J::obj().set("ph", o));
                }
            }
        }
        let args: Vec<J> = fa
            .arguments
            .all_args()
            .iter()
            .map(|a| J::s(pprust::expr_to_string(&a.expr)))
            .collect();
        let (tr, slf) = self.impl_stack.last().cloned().unwrap_or_default();
        self.out.push(
            J::obj()
                .set("impl_trait", J::s(tr))
                .set("impl_self", J::s(slf))
                .set("fn", J::s(self.fn_stack.last().cloned().unwrap_or_default()))
                .set("module", J::s(self.mod_stack.join("::")))
                .set("in_test", J::Bool(self.in_test_mod > 0))
                .set("pieces", J::Arr(pieces))
                .set("args", J::Arr(args))
                .set("conds", J::Arr(self.conds.clone()))
                .set("span", J::s(span_str(self.tcx, e.span)))
                .set("uspan", J::s(user_span_str(self.tcx, e.span))),
        );
    }
}

impl<'a, 'tcx, 'ast> Visitor<'ast> for V<'a, 'tcx> {
    fn visit_item(&mut self, i: &'ast ast::Item) {
        let test = is_cfg_test(&i.attrs);
        if test {
            self.in_test_mod += 1;
        }
        match &i.kind {
            ast::ItemKind::Impl(imp) => {
                let tr = imp
                    .of_trait
                    .as_ref()
                    .map(|t| pprust::path_to_string(&t.trait_ref.path))
                    .unwrap_or_default();
                let slf = pprust::ty_to_string(&imp.self_ty);
                self.impl_stack.push((tr, slf));
                visit::walk_item(self, i);
                self.impl_stack.pop();
            }
            ast::ItemKind::Fn(f) => {
                self.fn_stack.push(f.ident.to_string());
                visit::walk_item(self, i);
                self.fn_stack.pop();
            }
            ast::ItemKind::Mod(_, ident, _) => {
                self.mod_stack.push(ident.to_string());
                visit::walk_item(self, i);
                self.mod_stack.pop();
            }
            _ => visit::walk_item(self, i),
        }
        if test {
            self.in_test_mod -= 1;
        }
    }

    fn visit_assoc_item(&mut self, i: &'ast ast::AssocItem, ctxt: visit::AssocCtxt) {
        if let ast::AssocItemKind::Fn(f) = &i.kind {
            self.fn_stack.push(f.ident.to_string());
            visit::walk_assoc_item(self, i, ctxt);
            self.fn_stack.pop();
        } else {
            visit::walk_assoc_item(self, i, ctxt);
        }
    }

    fn visit_expr(&mut self, e: &'ast ast::Expr) {
        match &e.kind {
            ast::ExprKind::FormatArgs(fa) => {
                self.fmt_args(fa, e);
                visit::walk_expr(self, e);
            }
            ast::ExprKind::If(cond, then, els) => {
                self.visit_expr(cond);
                let c = pprust::expr_to_string(cond);
                self.conds.push(J::obj().set("if", J::s(c.clone())).set("branch", J::Bool(true)));
                self.visit_block(then);
                self.conds.pop();
                if let Some(els) = els {
                    self.conds.push(J::obj().set("if", J::s(c)).set("branch", J::Bool(false)));
                    self.visit_expr(els);
                    self.conds.pop();
                }
            }
            ast::ExprKind::Match(scrut, arms, _) => {
                self.visit_expr(scrut);
                let s = pprust::expr_to_string(scrut);
                for arm in arms.iter() {
                    let pat = pprust::pat_to_string(&arm.pat);
                    let mut c = J::obj().set("match", J::s(s.clone())).set("pat", J::s(pat));
                    if let Some(g) = &arm.guard {
                        c.put("guard", J::s(pprust::expr_to_string(&g.cond)));
                    }
                    self.conds.push(c);
                    if let Some(b) = &arm.body {
                        self.visit_expr(b);
                    }
                    self.conds.pop();
                }
            }
            _ => visit::walk_expr(self, e),
        }
    }
}

pub fn collect<'tcx>(tcx: TyCtxt<'tcx>) -> J {
    let resolver = tcx.resolver_for_lowering().borrow();
    let krate: &ast::Crate = &resolver.1;
    let mut out = Vec::new();
    let mut v = V {
        tcx,
        impl_stack: vec![],
        fn_stack: vec![],
        mod_stack: vec![],
        conds: vec![],
        out: &mut out,
        in_test_mod: 0,
    };
    visit::walk_crate(&mut v, krate);
    let attrs: Vec<J> = krate
        .attrs
        .iter()
        .map(|a| J::s(pprust::attribute_to_string(a)))
        .collect();
    J::obj()
        .set("format_args", J::Arr(out))
        .set("crate_attrs", J::Arr(attrs))
}
