use std::collections::{BTreeMap, HashMap, HashSet};

use rustc_hir::def::DefKind;
use rustc_hir::def_id::{DefId, LOCAL_CRATE};
use rustc_middle::mir::{
    self, AggregateKind, AssertKind, BasicBlock, BinOp, Body, CastKind, ConstValue, Operand, Place,
    ProjectionElem, Rvalue, StatementKind, TerminatorKind, UnOp,
};
use rustc_middle::ty::print::with_no_trimmed_paths;
use rustc_middle::ty::{self, Instance, Ty, TyCtxt, TypeVisitableExt, TypingEnv};
use rustc_span::Span;

use crate::json::J;

pub struct Cx<'tcx> {
    pub tcx: TyCtxt<'tcx>,
    /// foreign instances met while dumping local bodies (key -> instance)
    foreign: BTreeMap<String, Instance<'tcx>>,
}

fn tystr<'tcx>(ty: Ty<'tcx>) -> String {
    with_no_trimmed_paths!(format!("{}", ty))
}

pub fn span_str(tcx: TyCtxt<'_>, sp: Span) -> String {
    let sm = tcx.sess.source_map();
    let sp = sp.source_callsite();
    let lo = sm.lookup_char_pos(sp.lo());
    let name = format!("{}", lo.file.name.prefer_local_unconditionally());
    format!("{}:{}:{}", name, lo.line, lo.col.0 + 1)
}

/// position of the code a user wrote: expansions of foreign macros (write!, format_args!) are walked up,
/// the body of a macro defined in this crate is not (its call sites would all collapse to the invocation)
pub fn user_span_str(tcx: TyCtxt<'_>, sp: Span) -> String {
    let sm = tcx.sess.source_map();
    let mut sp = sp;
    let mut n = 0;
    while sp.from_expansion() && n < 32 {
        let d = sp.ctxt().outer_expn_data();
        if d.macro_def_id.map_or(false, |m| m.is_local()) {
            break;
        }
        sp = d.call_site;
        n += 1;
    }
    let lo = sm.lookup_char_pos(sp.lo());
    let name = format!("{}", lo.file.name.prefer_local_unconditionally());
    format!("{}:{}:{}", name, lo.line, lo.col.0 + 1)
}

fn raw_span_str(tcx: TyCtxt<'_>, sp: Span) -> String {
    let sm = tcx.sess.source_map();
    let lo = sm.lookup_char_pos(sp.lo());
    let name = format!("{}", lo.file.name.prefer_local_unconditionally());
    format!("{}:{}:{}", name, lo.line, lo.col.0 + 1)
}

fn defpath(tcx: TyCtxt<'_>, did: DefId) -> String {
    with_no_trimmed_paths!(tcx.def_path_str(did))
}

fn defkey(tcx: TyCtxt<'_>, did: DefId) -> String {
    format!(
        "{}{}",
        tcx.crate_name(did.krate),
        tcx.def_path(did).to_string_no_crate_verbose()
    )
}

fn args_json<'tcx>(tcx: TyCtxt<'tcx>, args: ty::GenericArgsRef<'tcx>) -> J {
    J::Arr(
        args.iter()
            .filter_map(|a| {
                if let Some(t) = a.as_type() {
                    // a local closure type is named by its definition key (its printed form carries a source position,
                    // which is the same for every instantiation of a macro)
                    let mut inner = t;
                    let mut prefix = String::new();
                    while let ty::Ref(_, i, m) = inner.kind() {
                        prefix.push_str(if m.is_mut() { "&mut " } else { "&" });
                        inner = *i;
                    }
                    if let ty::Closure(did, _) = inner.kind() {
                        if did.is_local() {
                            let k = defkey(tcx, *did).replace('{', "(").replace('}', ")");
                            return Some(J::s(format!("{}{{closure@KEY:{}}}", prefix, k)));
                        }
                    }
                    if let ty::FnDef(fdid, fargs) = inner.kind() {
                        // a function item type: name the function it resolves to (a trait method written `<T as Tr>::m`
                        // resolves to the impl's method), by definition key when local, by definition path otherwise
                        let has_param = fargs.iter().any(|x| x.as_type().map(|t| t.has_param()).unwrap_or(false));
                        if !has_param {
                            let tag = match Instance::try_resolve(tcx, TypingEnv::fully_monomorphized(), *fdid, fargs) {
                                Ok(Some(inst)) => {
                                    let rd = inst.def_id();
                                    if rd.is_local() {
                                        Some(format!("#KEY:{}", defkey(tcx, rd)))
                                    } else {
                                        Some(format!("#DEF:{}", defpath(tcx, rd)))
                                    }
                                }
                                _ => None,
                            };
                            if let Some(tg) = tag {
                                return Some(J::s(format!("{}{}", tystr(t), tg)));
                            }
                        }
                    }
                    Some(J::s(tystr(t)))
                } else if let Some(c) = a.as_const() {
                    Some(J::s(with_no_trimmed_paths!(format!("{}", c))))
                } else {
                    None
                }
            })
            .collect(),
    )
}

pub fn instance_key<'tcx>(tcx: TyCtxt<'tcx>, did: DefId, args: ty::GenericArgsRef<'tcx>) -> String {
    let mut s = defpath(tcx, did);
    s.push('<');
    let mut first = true;
    for a in args.iter() {
        let t = if let Some(t) = a.as_type() {
            tystr(t)
        } else if let Some(c) = a.as_const() {
            with_no_trimmed_paths!(format!("{}", c))
        } else {
            continue;
        };
        if !first {
            s.push(',');
        }
        first = false;
        s.push_str(&t);
    }
    s.push('>');
    s
}

/// Describes the impl / trait context of an associated item.
fn assoc_ctx<'tcx>(tcx: TyCtxt<'tcx>, did: DefId) -> J {
    let mut o = J::obj();
    let mut cur = did;
    // closures: walk up to the enclosing fn
    while matches!(tcx.def_kind(cur), DefKind::Closure) {
        cur = tcx.parent(cur);
    }
    o.put("name", J::s(tcx.opt_item_name(cur).map(|n| n.to_string()).unwrap_or_else(|| "_".to_string())));
    if let Some(parent) = tcx.opt_parent(cur) {
        match tcx.def_kind(parent) {
            DefKind::Impl { of_trait } => {
                let self_ty = tcx.type_of(parent).instantiate_identity().skip_norm_wip();
                o.put("self_ty", J::s(tystr(self_ty)));
                if of_trait {
                    let tr = tcx.impl_trait_ref(parent).instantiate_identity().skip_norm_wip();
                    o.put("trait", J::s(defpath(tcx, tr.def_id)));
                    // args[0] is Self
                    let targs: Vec<J> = tr
                        .args
                        .iter()
                        .skip(1)
                        .filter_map(|a| a.as_type().map(|t| J::s(tystr(t))))
                        .collect();
                    o.put("trait_args", J::Arr(targs));
                }
                o.put("impl_key", J::s(defkey(tcx, parent)));
            }
            DefKind::Trait => {
                o.put("in_trait", J::s(defpath(tcx, parent)));
            }
            _ => {}
        }
    }
    o
}

impl<'tcx> Cx<'tcx> {
    fn place(&self, p: &Place<'tcx>) -> J {
        let mut proj = Vec::new();
        for e in p.projection.iter() {
            proj.push(match e {
                ProjectionElem::Deref => J::s("deref"),
                ProjectionElem::Field(f, _) => J::obj().set("f", J::Int(f.as_usize() as i128)),
                ProjectionElem::Index(l) => J::obj().set("idx", J::Int(l.as_usize() as i128)),
                ProjectionElem::ConstantIndex { offset, from_end, .. } => J::obj()
                    .set("cidx", J::Int(offset as i128))
                    .set("from_end", J::Bool(from_end)),
                ProjectionElem::Downcast(name, v) => J::obj()
                    .set("downcast", J::Int(v.as_usize() as i128))
                    .set(
                        "name",
                        name.map(|n| J::s(n.to_string())).unwrap_or(J::Null),
                    ),
                ProjectionElem::Subslice { from, to, from_end } => J::obj()
                    .set("subslice", J::Int(from as i128))
                    .set("to", J::Int(to as i128))
                    .set("from_end", J::Bool(from_end)),
                _ => J::s("other"),
            });
        }
        J::obj()
            .set("l", J::Int(p.local.as_usize() as i128))
            .set("p", J::Arr(proj))
    }

    fn const_value(&self, val: ConstValue, ty: Ty<'tcx>) -> J {
        let tcx = self.tcx;
        let mut o = J::obj();
        match val {
            ConstValue::Scalar(mir::interpret::Scalar::Int(i)) => {
                o.put("k", J::s("scalar"));
                o.put("size", J::Int(i.size().bytes() as i128));
                o.put("bits", J::s(format!("{:#x}", i.to_bits(i.size()))));
            }
            ConstValue::Scalar(mir::interpret::Scalar::Ptr(ptr, _)) => {
                // pointer to an allocation: dump the pointee when it is a sized, pointer-free value
                o.put("k", J::s("ptr"));
                let (prov, offset) = ptr.into_raw_parts();
                let alloc_id = prov.alloc_id();
                if let Some(inner) = ty.builtin_deref(true) {
                    if let Some(bytes) = self.read_alloc(alloc_id, offset.bytes(), inner) {
                        o.put("pointee_ty", J::s(tystr(inner)));
                        o.put("hex", J::s(bytes));
                    }
                }
            }
            ConstValue::ZeroSized => {
                o.put("k", J::s("zst"));
            }
            ConstValue::Slice { alloc_id, meta } => {
                o.put("k", J::s("slice"));
                o.put("len", J::Int(meta as i128));
                let alloc = tcx.global_alloc(alloc_id).unwrap_memory();
                let inner = alloc.inner();
                let n = inner.len().min(meta as usize * 16).min(4096);
                let bytes = inner.inspect_with_uninit_and_ptr_outside_interpreter(0..n);
                if let Some(t) = ty.builtin_deref(true) {
                    if t.is_str() {
                        let m = (meta as usize).min(bytes.len());
                        o.put("str", J::s(String::from_utf8_lossy(&bytes[..m]).to_string()));
                    }
                }
            }
            ConstValue::Indirect { alloc_id, offset } => {
                o.put("k", J::s("bytes"));
                if let Some(bytes) = self.read_alloc(alloc_id, offset.bytes(), ty) {
                    o.put("hex", J::s(bytes));
                    if let Some(fl) = self.field_layout(ty, 0) {
                        o.put("fields", fl);
                    }
                } else if let Some((bytes, fns)) = self.read_alloc_fnptrs(alloc_id, offset.bytes(), ty) {
                    // a table whose only pointers are function pointers (`[fn(f64) -> f64; 2]`, `[(fn(..), TwoFloat); N]`)
                    o.put("hex", J::s(bytes));
                    o.put("fnptrs", fns);
                    if let Some(fl) = self.field_layout(ty, 0) {
                        o.put("fields", fl);
                    }
                } else if let Some(items) = self.read_str_array(alloc_id, offset.bytes(), ty) {
                    // `[&str; N]`: the strings themselves
                    o.put("k", J::s("strs"));
                    o.put("items", J::Arr(items.into_iter().map(J::s).collect()));
                } else if let Some((pty, hex)) = self.read_slice_ref(alloc_id, offset.bytes(), ty) {
                    // `&'static [T]` / `&'static [T; N]` constant: follow the pointer to the (pointer-free) elements
                    o.put("k", J::s("ptr"));
                    o.put("pointee_ty", J::s(pty));
                    o.put("hex", J::s(hex));
                }
            }
        }
        o
    }

    /// a constant `[&str; N]`: its strings
    fn read_str_array(&self, alloc_id: mir::interpret::AllocId, offset: u64, ty: Ty<'tcx>) -> Option<Vec<String>> {
        let tcx = self.tcx;
        let (elem, n) = match ty.kind() {
            ty::Array(e, n) => (*e, n.try_to_target_usize(tcx)?),
            _ => return None,
        };
        match elem.kind() {
            ty::Ref(_, inner, _) if inner.is_str() => {}
            _ => return None,
        }
        if n > 64 {
            return None;
        }
        let alloc = match tcx.global_alloc(alloc_id) {
            mir::interpret::GlobalAlloc::Memory(m) => m,
            _ => return None,
        };
        let a = alloc.inner();
        let mut out = Vec::new();
        for i in 0..n as usize {
            let off = offset as usize + i * 16;
            if off + 16 > a.len() {
                return None;
            }
            let prov = a.provenance().ptrs().iter().find(|(o, _)| o.bytes() as usize == off).map(|(_, p)| *p)?;
            let raw = a.inspect_with_uninit_and_ptr_outside_interpreter(off..off + 16);
            let mut w = [0u8; 8];
            w.copy_from_slice(&raw[0..8]);
            let poff = u64::from_le_bytes(w) as usize;
            w.copy_from_slice(&raw[8..16]);
            let len = u64::from_le_bytes(w) as usize;
            let target = match tcx.global_alloc(prov.alloc_id()) {
                mir::interpret::GlobalAlloc::Memory(m) => m,
                _ => return None,
            };
            let ti = target.inner();
            if poff + len > ti.len() {
                return None;
            }
            let bytes = ti.inspect_with_uninit_and_ptr_outside_interpreter(poff..poff + len);
            out.push(String::from_utf8_lossy(bytes).to_string());
        }
        Some(out)
    }

    /// a constant of type `&[T]` stored as (pointer, length): the pointee as `[T; len]` bytes
    fn read_slice_ref(&self, alloc_id: mir::interpret::AllocId, offset: u64, ty: Ty<'tcx>) -> Option<(String, String)> {
        let tcx = self.tcx;
        let inner_ty = ty.builtin_deref(true)?;
        let elem = match inner_ty.kind() {
            ty::Slice(e) => *e,
            _ => return None,
        };
        let alloc = match tcx.global_alloc(alloc_id) {
            mir::interpret::GlobalAlloc::Memory(m) => m,
            _ => return None,
        };
        let a = alloc.inner();
        let off = offset as usize;
        if off + 16 > a.len() {
            return None;
        }
        let prov = a.provenance().ptrs().iter().find(|(o, _)| o.bytes() as usize == off).map(|(_, p)| *p)?;
        let raw = a.inspect_with_uninit_and_ptr_outside_interpreter(off..off + 16);
        let mut w = [0u8; 8];
        w.copy_from_slice(&raw[0..8]);
        let poff = u64::from_le_bytes(w);
        w.copy_from_slice(&raw[8..16]);
        let len = u64::from_le_bytes(w);
        if len > 4096 {
            return None;
        }
        let arr = Ty::new_array(tcx, elem, len);
        let hex = self.read_alloc(prov.alloc_id(), poff, arr)?;
        Some((tystr(arr), hex))
    }

    /// offsets and types of the fields of a tuple / single-variant struct constant (so that its bytes can be taken apart)
    fn field_layout(&self, ty: Ty<'tcx>, depth: usize) -> Option<J> {
        let tcx = self.tcx;
        if depth > 3 {
            return None;
        }
        if let ty::Array(elem, _) = ty.kind() {
            // an array: the layout of one element
            let el = tcx.layout_of(TypingEnv::fully_monomorphized().as_query_input(*elem)).ok()?;
            let mut o = J::obj().set("array", J::Bool(true)).set("elem_ty", J::s(tystr(*elem))).set("elem_size", J::Int(el.size.bytes() as i128));
            if let Some(inner) = self.field_layout(*elem, depth + 1) {
                o.put("elem_fields", inner);
            }
            return Some(o);
        }
        let ftys: Vec<Ty<'tcx>> = match ty.kind() {
            ty::Tuple(ts) if !ts.is_empty() => ts.iter().collect(),
            ty::Adt(def, args) if def.is_struct() => def.non_enum_variant().fields.iter().map(|f| f.ty(tcx, args)).collect(),
            _ => return None,
        };
        let layout = tcx.layout_of(TypingEnv::fully_monomorphized().as_query_input(ty)).ok()?;
        let mut out = Vec::new();
        for (i, fty) in ftys.iter().enumerate() {
            let fl = tcx.layout_of(TypingEnv::fully_monomorphized().as_query_input(*fty)).ok()?;
            let mut fo = J::obj()
                .set("off", J::Int(layout.fields.offset(i).bytes() as i128))
                .set("size", J::Int(fl.size.bytes() as i128))
                .set("ty", J::s(tystr(*fty)));
            if let Some(inner) = self.field_layout(*fty, depth + 1) {
                fo.put("fields", inner);
            }
            out.push(fo);
        }
        Some(J::Arr(out))
    }

    fn read_alloc(&self, alloc_id: mir::interpret::AllocId, offset: u64, ty: Ty<'tcx>) -> Option<String> {
        let tcx = self.tcx;
        let layout = tcx
            .layout_of(TypingEnv::fully_monomorphized().as_query_input(ty))
            .ok()?;
        if !layout.is_sized() {
            return None;
        }
        let size = layout.size.bytes() as usize;
        let alloc = match tcx.global_alloc(alloc_id) {
            mir::interpret::GlobalAlloc::Memory(m) => m,
            mir::interpret::GlobalAlloc::Static(did) => match tcx.eval_static_initializer(did) {
                Ok(a) => a,
                Err(_) => return None,
            },
            _ => return None,
        };
        let inner = alloc.inner();
        let off = offset as usize;
        if off + size > inner.len() || size > (1 << 20) {
            return None;
        }
        if !inner.provenance().ptrs().is_empty() {
            return None;
        }
        let bytes = inner.inspect_with_uninit_and_ptr_outside_interpreter(off..off + size);
        let mut s = String::with_capacity(size * 2);
        for b in bytes {
            s.push_str(&format!("{:02x}", b));
        }
        Some(s)
    }

    /// bytes of a sized constant whose pointers all point to functions, with those functions by offset
    fn read_alloc_fnptrs(&self, alloc_id: mir::interpret::AllocId, offset: u64, ty: Ty<'tcx>) -> Option<(String, J)> {
        let tcx = self.tcx;
        let layout = tcx.layout_of(TypingEnv::fully_monomorphized().as_query_input(ty)).ok()?;
        if !layout.is_sized() {
            return None;
        }
        let size = layout.size.bytes() as usize;
        let alloc = match tcx.global_alloc(alloc_id) {
            mir::interpret::GlobalAlloc::Memory(m) => m,
            _ => return None,
        };
        let inner = alloc.inner();
        let off = offset as usize;
        if off + size > inner.len() || size > (1 << 16) || inner.provenance().ptrs().is_empty() {
            return None;
        }
        let mut fns = Vec::new();
        for (o, prov) in inner.provenance().ptrs().iter() {
            let o = o.bytes() as usize;
            if o < off || o >= off + size {
                continue;
            }
            match tcx.global_alloc(prov.alloc_id()) {
                mir::interpret::GlobalAlloc::Function { instance } => {
                    let did = instance.def_id();
                    fns.push(
                        J::obj()
                            .set("off", J::Int((o - off) as i128))
                            .set("def", J::s(defpath(tcx, did)))
                            .set("key", J::s(defkey(tcx, did)))
                            .set("local", J::Bool(did.is_local()))
                            .set("args", args_json(tcx, instance.args)),
                    );
                }
                _ => return None,
            }
        }
        let bytes = inner.inspect_with_uninit_and_ptr_outside_interpreter(off..off + size);
        let mut s = String::with_capacity(size * 2);
        for b in bytes {
            s.push_str(&format!("{:02x}", b));
        }
        Some((s, J::Arr(fns)))
    }

    fn resolve_fn(&mut self, owner: DefId, did: DefId, args: ty::GenericArgsRef<'tcx>) -> J {
        let tcx = self.tcx;
        let mut o = J::obj();
        o.put("def", J::s(defpath(tcx, did)));
        o.put("args", args_json(tcx, args));
        o.put("local", J::Bool(did.is_local()));
        let env = TypingEnv::post_analysis(tcx, owner);
        match Instance::try_resolve(tcx, env, did, args) {
            Ok(Some(inst)) => {
                let rdid = inst.def_id();
                let mut r = J::obj();
                r.put("def", J::s(defpath(tcx, rdid)));
                r.put("key", J::s(defkey(tcx, rdid)));
                r.put("args", args_json(tcx, inst.args));
                r.put("local", J::Bool(rdid.is_local()));
                r.put(
                    "shim",
                    J::s(match inst.def {
                        ty::InstanceKind::Item(_) => "item".to_string(),
                        other => format!("{:?}", other).split('(').next().unwrap_or("").to_string(),
                    }),
                );
                if matches!(tcx.def_kind(rdid), DefKind::Fn | DefKind::AssocFn | DefKind::Closure) {
                    if matches!(tcx.def_kind(rdid), DefKind::AssocFn) {
                        r.put("ctx", assoc_ctx(tcx, rdid));
                    }
                }
                if !rdid.is_local() {
                    let key = instance_key(tcx, rdid, inst.args);
                    r.put("fkey", J::s(key.clone()));
                    self.foreign.entry(key).or_insert(inst);
                }
                o.put("res", r);
            }
            _ => {
                o.put("res", J::Null);
            }
        }
        o
    }

    fn mir_const(&mut self, owner: DefId, c: &mir::ConstOperand<'tcx>) -> J {
        let tcx = self.tcx;
        let ty = c.const_.ty();
        let mut o = J::obj();
        o.put("ty", J::s(tystr(ty)));
        if let ty::FnDef(did, args) = ty.kind() {
            o.put("fn", self.resolve_fn(owner, *did, args));
            return o;
        }
        if let mir::Const::Ty(_, ct) = c.const_ {
            if let ty::ConstKind::Param(p) = ct.kind() {
                // a const generic parameter used as a value: the evaluator substitutes the instance's argument
                o.put("param", J::s(p.name.to_string()));
            }
        }
        if let mir::Const::Unevaluated(uv, _) = c.const_ {
            o.put("item", J::s(defpath(tcx, uv.def)));
            o.put("item_key", J::s(defkey(tcx, uv.def)));
            if let Some(p) = uv.promoted {
                o.put("promoted", J::Int(p.as_usize() as i128));
            }
        }
        let env = TypingEnv::post_analysis(tcx, owner);
        match c.const_.eval(tcx, env, c.span) {
            Ok(v) => o.put("val", self.const_value(v, ty)),
            Err(_) => o.put("val", J::Null),
        }
        o
    }

    fn operand(&mut self, owner: DefId, op: &Operand<'tcx>) -> J {
        match op {
            Operand::Copy(p) => J::obj().set("copy", self.place(p)),
            Operand::Move(p) => J::obj().set("move", self.place(p)),
            Operand::Constant(c) => J::obj().set("const", self.mir_const(owner, c)),
            #[allow(unreachable_patterns)]
            _ => J::obj().set("other", J::s(format!("{:?}", op))),
        }
    }

    fn rvalue(&mut self, owner: DefId, body: &Body<'tcx>, rv: &Rvalue<'tcx>) -> J {
        let tcx = self.tcx;
        match rv {
            Rvalue::Use(op, ..) => J::obj().set("use", self.operand(owner, op)),
            Rvalue::Ref(_, bk, p) => J::obj()
                .set("ref", self.place(p))
                .set("mut", J::Bool(matches!(bk, mir::BorrowKind::Mut { .. }))),
            Rvalue::CopyForDeref(p) => J::obj().set("use", J::obj().set("copy", self.place(p))),
            Rvalue::BinaryOp(op, ab) => {
                let (a, b) = &**ab;
                J::obj()
                    .set("bin", J::s(binop_name(*op)))
                    .set("ty", J::s(tystr(a.ty(body, tcx))))
                    .set("a", self.operand(owner, a))
                    .set("b", self.operand(owner, b))
            }
            Rvalue::UnaryOp(op, a) => J::obj()
                .set(
                    "un",
                    J::s(match op {
                        UnOp::Not => "Not".to_string(),
                        UnOp::Neg => "Neg".to_string(),
                        other => format!("{:?}", other),
                    }),
                )
                .set("ty", J::s(tystr(a.ty(body, tcx))))
                .set("a", self.operand(owner, a)),
            Rvalue::Cast(kind, a, ty) => J::obj()
                .set(
                    "cast",
                    J::s(match kind {
                        CastKind::IntToInt => "IntToInt".to_string(),
                        CastKind::FloatToInt => "FloatToInt".to_string(),
                        CastKind::IntToFloat => "IntToFloat".to_string(),
                        CastKind::FloatToFloat => "FloatToFloat".to_string(),
                        CastKind::Transmute => "Transmute".to_string(),
                        other => format!("{:?}", other),
                    }),
                )
                .set("a", self.operand(owner, a))
                .set("from", J::s(tystr(a.ty(body, tcx))))
                .set("ty", J::s(tystr(*ty))),
            Rvalue::Aggregate(kind, ops) => {
                let mut o = J::obj();
                let k = match &**kind {
                    AggregateKind::Array(t) => J::obj().set("array", J::s(tystr(*t))),
                    AggregateKind::Tuple => J::s("tuple"),
                    AggregateKind::Adt(did, variant, args, _, _) => {
                        let adt = tcx.adt_def(*did);
                        let v = adt.variant(*variant);
                        J::obj()
                            .set("adt", J::s(defpath(tcx, *did)))
                            .set("variant", J::s(v.name.to_string()))
                            .set("variant_idx", J::Int(variant.as_usize() as i128))
                            .set(
                                "fields",
                                J::Arr(v.fields.iter().map(|f| J::s(f.name.to_string())).collect()),
                            )
                            .set("args", args_json(tcx, args))
                    }
                    AggregateKind::Closure(did, _) => J::obj()
                        .set("closure", J::s(defpath(tcx, *did)))
                        .set("key", J::s(defkey(tcx, *did))),
                    other => J::obj().set("other", J::s(format!("{:?}", other))),
                };
                o.put("agg", k);
                let mut v = Vec::new();
                for op in ops.iter() {
                    v.push(self.operand(owner, op));
                }
                o.put("ops", J::Arr(v));
                o
            }
            Rvalue::Discriminant(p) => J::obj().set("discr", self.place(p)),
            Rvalue::Repeat(op, n) => J::obj()
                .set("repeat", self.operand(owner, op))
                .set("n", J::s(with_no_trimmed_paths!(format!("{}", n)))),
            Rvalue::RawPtr(_, p) => J::obj().set("rawptr", self.place(p)),
            other => J::obj().set("other", J::s(format!("{:?}", other))),
        }
    }

    fn assert_msg(&mut self, owner: DefId, msg: &AssertKind<Operand<'tcx>>) -> J {
        match msg {
            AssertKind::BoundsCheck { len, index } => J::obj()
                .set("k", J::s("BoundsCheck"))
                .set("len", self.operand(owner, len))
                .set("index", self.operand(owner, index)),
            AssertKind::Overflow(op, a, b) => J::obj()
                .set("k", J::s("Overflow"))
                .set("op", J::s(binop_name(*op)))
                .set("a", self.operand(owner, a))
                .set("b", self.operand(owner, b)),
            AssertKind::OverflowNeg(a) => J::obj()
                .set("k", J::s("OverflowNeg"))
                .set("a", self.operand(owner, a)),
            AssertKind::DivisionByZero(a) => J::obj()
                .set("k", J::s("DivisionByZero"))
                .set("a", self.operand(owner, a)),
            AssertKind::RemainderByZero(a) => J::obj()
                .set("k", J::s("RemainderByZero"))
                .set("a", self.operand(owner, a)),
            other => J::obj().set("k", J::s(format!("{:?}", other).split(|c| c == '(' || c == ' ' || c == '{').next().unwrap_or("").to_string())),
        }
    }

    pub fn body(&mut self, owner: DefId, body: &Body<'tcx>) -> J {
        let tcx = self.tcx;
        let mut o = J::obj();
        o.put("arg_count", J::Int(body.arg_count as i128));
        let mut names: HashMap<usize, String> = HashMap::new();
        for vdi in body.var_debug_info.iter() {
            if let mir::VarDebugInfoContents::Place(p) = &vdi.value {
                if p.projection.is_empty() {
                    names.entry(p.local.as_usize()).or_insert(vdi.name.to_string());
                }
            }
        }
        let mut locals = Vec::new();
        for (l, d) in body.local_decls.iter_enumerated() {
            let mut lo = J::obj().set("ty", J::s(tystr(d.ty)));
            if let Some(n) = names.get(&l.as_usize()) {
                lo.put("name", J::s(n.clone()));
            }
            if let ty::Closure(did, _) = d.ty.kind() {
                lo.put("closure", J::s(defkey(tcx, *did)));
            }
            locals.push(lo);
        }
        o.put("locals", J::Arr(locals));
        // upvar debug names for closures
        let mut upv = Vec::new();
        for vdi in body.var_debug_info.iter() {
            if let mir::VarDebugInfoContents::Place(p) = &vdi.value {
                if !p.projection.is_empty() {
                    upv.push(J::obj().set("name", J::s(vdi.name.to_string())).set("place", self.place(p)));
                }
            }
        }
        o.put("debug_places", J::Arr(upv));
        let mut blocks = Vec::new();
        for (_bb, data) in body.basic_blocks.iter_enumerated() {
            let mut stmts = Vec::new();
            for st in data.statements.iter() {
                match &st.kind {
                    StatementKind::Assign(b) => {
                        let (p, rv) = &**b;
                        stmts.push(
                            J::obj()
                                .set("lhs", self.place(p))
                                .set("rv", self.rvalue(owner, body, rv))
                                .set("sp", J::s(span_str(tcx, st.source_info.span))),
                        );
                    }
                    StatementKind::SetDiscriminant { place, variant_index } => {
                        stmts.push(
                            J::obj()
                                .set("setdiscr", self.place(place))
                                .set("variant", J::Int(variant_index.as_usize() as i128)),
                        );
                    }
                    StatementKind::StorageLive(_)
                    | StatementKind::StorageDead(_)
                    | StatementKind::Nop
                    | StatementKind::FakeRead(..)
                    | StatementKind::PlaceMention(..)
                    | StatementKind::AscribeUserType(..)
                    | StatementKind::Coverage(..)
                    | StatementKind::ConstEvalCounter
                    | StatementKind::BackwardIncompatibleDropHint { .. } => {}
                    StatementKind::Intrinsic(i) => {
                        stmts.push(J::obj().set("intrinsic", J::s(format!("{:?}", i))));
                    }
                    #[allow(unreachable_patterns)]
                    other => {
                        stmts.push(J::obj().set("otherstmt", J::s(format!("{:?}", other))));
                    }
                }
            }
            let term = data.terminator();
            let bbi = |b: BasicBlock| J::Int(b.as_usize() as i128);
            let mut t = J::obj();
            t.put("sp", J::s(span_str(tcx, term.source_info.span)));
            if matches!(term.kind, mir::TerminatorKind::Call { .. }) && term.source_info.span.from_expansion() {
                // a panic raised by debug_assert!/debug_assert_eq!/debug_assert_ne! (its failure arm)
                let dbg = term.source_info.span.macro_backtrace().any(|e| match e.kind {
                    rustc_span::hygiene::ExpnKind::Macro(_, name) => name.as_str().starts_with("debug_assert"),
                    _ => false,
                });
                if dbg {
                    t.put("dbg", J::Bool(true));
                }
                t.put("usp", J::s(user_span_str(tcx, term.source_info.span)));
            }
            t.put("exp", J::Bool(term.source_info.span.from_expansion()));
            match &term.kind {
                TerminatorKind::Goto { target } => {
                    t.put("k", J::s("goto"));
                    t.put("t", bbi(*target));
                }
                TerminatorKind::SwitchInt { discr, targets } => {
                    t.put("k", J::s("switch"));
                    t.put("d", self.operand(owner, discr));
                    t.put("dty", J::s(tystr(discr.ty(body, tcx))));
                    let mut vals = Vec::new();
                    let mut tg = Vec::new();
                    for (v, b) in targets.iter() {
                        vals.push(J::s(format!("{}", v)));
                        tg.push(bbi(b));
                    }
                    t.put("vals", J::Arr(vals));
                    t.put("targets", J::Arr(tg));
                    t.put("otherwise", bbi(targets.otherwise()));
                }
                TerminatorKind::Return => t.put("k", J::s("ret")),
                TerminatorKind::Unreachable => t.put("k", J::s("unreachable")),
                TerminatorKind::UnwindResume => t.put("k", J::s("resume")),
                TerminatorKind::UnwindTerminate(_) => t.put("k", J::s("terminate")),
                TerminatorKind::Drop { place, target, .. } => {
                    t.put("k", J::s("drop"));
                    t.put("place", self.place(place));
                    t.put("t", bbi(*target));
                }
                TerminatorKind::Call { func, args, destination, target, .. } => {
                    t.put("k", J::s("call"));
                    let fty = func.ty(body, tcx);
                    if let ty::FnDef(did, gargs) = fty.kind() {
                        t.put("f", self.resolve_fn(owner, *did, gargs));
                        let sig = tcx.fn_sig(*did).instantiate_identity().skip_norm_wip().skip_binder();
                        t.put("diverges", J::Bool(sig.output().is_never()));
                    } else {
                        t.put("fop", self.operand(owner, func));
                        t.put("fty", J::s(tystr(fty)));
                    }
                    let mut av = Vec::new();
                    for a in args.iter() {
                        av.push(self.operand(owner, &a.node));
                    }
                    t.put("args", J::Arr(av));
                    t.put("dest", self.place(destination));
                    t.put("t", target.map(bbi).unwrap_or(J::Null));
                }
                TerminatorKind::Assert { cond, expected, msg, target, .. } => {
                    t.put("k", J::s("assert"));
                    t.put("cond", self.operand(owner, cond));
                    t.put("expected", J::Bool(*expected));
                    t.put("msg", self.assert_msg(owner, msg));
                    t.put("t", bbi(*target));
                }
                other => {
                    t.put("k", J::s("other"));
                    t.put("dbg", J::s(format!("{:?}", other)));
                }
            }
            blocks.push(J::obj().set("s", J::Arr(stmts)).set("t", t).set("cleanup", J::Bool(data.is_cleanup)));
        }
        o.put("blocks", J::Arr(blocks));
        o
    }

    /// pure plumbing of core (Option / Result combinators, `?`, bool::then): the generic MIR is exported so that the
    /// evaluator can read through it; one copy per definition
    fn export_plumbing(&mut self, did: DefId, out: &mut BTreeMap<String, J>) {
        let tcx = self.tcx;
        if !matches!(tcx.def_kind(did), DefKind::Fn | DefKind::AssocFn) || !tcx.is_mir_available(did) || tcx.intrinsic(did).is_some() {
            return;
        }
        let dp = defpath(tcx, did);
        let plumbing = dp.starts_with("std::option::Option::<T>::")
            || dp.starts_with("core::option::Option::<T>::")
            || dp.starts_with("std::option::Option::<&T>::")
            || dp.starts_with("core::option::Option::<&T>::")
            || dp.starts_with("std::option::Option::<&mut T>::")
            || dp.starts_with("core::option::Option::<&mut T>::")
            || dp.starts_with("std::result::Result::<T, E>::")
            || dp.starts_with("core::result::Result::<T, E>::")
            || dp.starts_with("std::iter::adapters::") || dp.starts_with("core::iter::adapters::")
            || dp.starts_with("std::iter::sources::") || dp.starts_with("core::iter::sources::")
            || dp.starts_with("std::iter::Iterator::") || dp.starts_with("core::iter::Iterator::")
            || dp.starts_with("std::iter::successors") || dp.starts_with("core::iter::successors")
            || dp.starts_with("<std::iter::") || dp.starts_with("<core::iter::")
            || dp.starts_with("std::ops::ControlFlow::<") || dp.starts_with("core::ops::ControlFlow::<")
            || dp.starts_with("std::bool::<impl bool>::then")
            || dp.starts_with("core::bool::<impl bool>::then")
            || (dp.contains("ops::Try>::branch") || dp.contains("ops::FromResidual") && dp.ends_with("::from_residual"))
                && (dp.contains("option::Option<") || dp.contains("result::Result<"));
        if !plumbing {
            return;
        }
        let dkey = format!("def:{}", dp);
        if out.contains_key(&dkey) {
            return;
        }
        let r = std::panic::catch_unwind(std::panic::AssertUnwindSafe(|| {
            let b = tcx.optimized_mir(did);
            let gens = tcx.generics_of(did);
            let mut gn = Vec::new();
            for i in 0..gens.count() {
                let p = gens.param_at(i, tcx);
                if !matches!(p.kind, ty::GenericParamDefKind::Lifetime) {
                    gn.push(J::s(p.name.to_string()));
                }
            }
            let mut m = J::obj();
            m.put("def", J::s(dp.clone()));
            m.put("generics", J::Arr(gn));
            m.put("mir", self.body(did, b));
            m
        }));
        if let Ok(m) = r {
            out.insert(dkey, m);
        }
    }

    /// Panic summary of a foreign instance whose MIR is available: direct panic sites and the
    /// instances it calls (resolved with the instance's substitution).
    fn foreign_summary(&mut self, inst: Instance<'tcx>, depth: usize, seen: &mut HashSet<String>, out: &mut BTreeMap<String, J>) {
        let tcx = self.tcx;
        let did = inst.def_id();
        let key = instance_key(tcx, did, inst.args);
        if !seen.insert(key.clone()) {
            return;
        }
        let mut o = J::obj();
        o.put("def", J::s(defpath(tcx, did)));
        o.put("args", args_json(tcx, inst.args));
        let is_item = matches!(inst.def, ty::InstanceKind::Item(_));
        o.put("item", J::Bool(is_item));
        let kind = tcx.def_kind(did);
        let has_mir = is_item
            && matches!(kind, DefKind::Fn | DefKind::AssocFn | DefKind::Closure)
            && tcx.is_mir_available(did)
            && tcx.intrinsic(did).is_none();
        o.put("has_mir", J::Bool(has_mir));
        if let Some(i) = tcx.intrinsic(did) {
            o.put("intrinsic", J::s(i.name.to_string()));
        }
        if matches!(kind, DefKind::Fn | DefKind::AssocFn) {
            let sig = tcx.fn_sig(did).instantiate_identity().skip_norm_wip().skip_binder();
            o.put("diverges", J::Bool(sig.output().is_never()));
        }
        if !has_mir || depth > 12 {
            o.put("truncated", J::Bool(has_mir));
            out.insert(key, o);
            return;
        }
        self.export_plumbing(did, out);
        let body = tcx.instance_mir(inst.def);
        let env = TypingEnv::fully_monomorphized();
        let mut sites = Vec::new();
        let mut calls = Vec::new();
        let mut next = Vec::new();
        for (_bb, data) in body.basic_blocks.iter_enumerated() {
            if data.is_cleanup {
                continue;
            }
            let term = data.terminator();
            match &term.kind {
                TerminatorKind::Assert { msg, .. } => {
                    let k = format!("{:?}", msg);
                    let k = k.split(|c| c == '(' || c == ' ' || c == '{').next().unwrap_or("").to_string();
                    sites.push(J::s(format!("assert:{}", k)));
                }
                TerminatorKind::Call { func, .. } => {
                    let fty = func.ty(body, tcx);
                    let fty = match inst.try_instantiate_mir_and_normalize_erasing_regions(tcx, env, ty::EarlyBinder::bind(fty)) {
                        Ok(t) => t,
                        Err(_) => {
                            calls.push(J::obj().set("unresolved", J::s(tystr(fty))));
                            continue;
                        }
                    };
                    if let ty::FnDef(cdid, cargs) = fty.kind() {
                        match Instance::try_resolve(tcx, env, *cdid, cargs) {
                            Ok(Some(ci)) => {
                                let ck = instance_key(tcx, ci.def_id(), ci.args);
                                let mut c = J::obj().set("key", J::s(ck)).set("local", J::Bool(ci.def_id().is_local()));
                                if ci.def_id().is_local() {
                                    c.put("local_key", J::s(defkey(tcx, ci.def_id())));
                                } else {
                                    next.push(ci);
                                }
                                if let ty::InstanceKind::Virtual(..) = ci.def {
                                    c.put("virtual", J::Bool(true));
                                }
                                calls.push(c);
                            }
                            _ => calls.push(J::obj().set("unresolved", J::s(tystr(fty)))),
                        }
                    } else {
                        calls.push(J::obj().set("indirect", J::s(tystr(fty))));
                    }
                }
                _ => {}
            }
        }
        o.put("sites", J::Arr(sites));
        o.put("calls", J::Arr(calls));
        out.insert(key, o);
        for ci in next {
            self.foreign_summary(ci, depth + 1, seen, out);
        }
    }
}

fn binop_name(op: BinOp) -> String {
    format!("{:?}", op)
}

pub fn collect<'tcx>(tcx: TyCtxt<'tcx>) -> J {
    let mut cx = Cx { tcx, foreign: BTreeMap::new() };
    let mut root = J::obj();
    root.put("crate", J::s(tcx.crate_name(LOCAL_CRATE).to_string()));
    root.put("overflow_checks", J::Bool(tcx.sess.overflow_checks()));
    let mut cfgs: Vec<String> = tcx
        .sess
        .config
        .iter()
        .filter_map(|(k, v)| {
            if k.as_str() == "feature" {
                v.map(|v| v.to_string())
            } else {
                None
            }
        })
        .collect();
    cfgs.sort();
    root.put("features", J::Arr(cfgs.into_iter().map(J::s).collect()));

    let mut bodies = Vec::new();
    let mut consts = Vec::new();
    let mut driver_errors = Vec::new();
    for ldid in tcx.hir_body_owners() {
        let did = ldid.to_def_id();
        let kind = tcx.def_kind(did);
        let before_b = bodies.len();
        let before_c = consts.len();
        let res = std::panic::catch_unwind(std::panic::AssertUnwindSafe(|| {
        match kind {
            DefKind::Fn | DefKind::AssocFn | DefKind::Closure => {
                let body = tcx.optimized_mir(did);
                let mut o = J::obj();
                o.put("path", J::s(defpath(tcx, did)));
                o.put("key", J::s(defkey(tcx, did)));
                o.put("kind", J::s(format!("{:?}", kind)));
                o.put("ctx", assoc_ctx(tcx, did));
                o.put("span", J::s(span_str(tcx, tcx.def_span(did))));
                o.put("raw_span", J::s(raw_span_str(tcx, tcx.def_span(did))));
                o.put("from_expansion", J::Bool(tcx.def_span(did).from_expansion()));
                if matches!(kind, DefKind::Fn | DefKind::AssocFn) {
                    let vis = tcx.visibility(did);
                    o.put("pub", J::Bool(vis.is_public()));
                    o.put(
                        "reachable",
                        J::Bool(tcx.effective_visibilities(()).is_reachable(ldid)),
                    );
                    let sig = tcx.fn_sig(did).instantiate_identity().skip_norm_wip().skip_binder();
                    o.put("inputs", J::Arr(sig.inputs().iter().map(|t| J::s(tystr(*t))).collect()));
                    o.put("output", J::s(tystr(sig.output())));
                    let gens = tcx.generics_of(did);
                    o.put("generic_count", J::Int(gens.count() as i128));
                    // names of the type / const parameters (parents first), in the order of a resolved callee's `args`
                    let mut gn = Vec::new();
                    for i in 0..gens.count() {
                        let p = gens.param_at(i, tcx);
                        if !matches!(p.kind, ty::GenericParamDefKind::Lifetime) {
                            gn.push(J::s(p.name.to_string()));
                        }
                    }
                    o.put("generics", J::Arr(gn));
                    o.put("is_const_fn", J::Bool(tcx.is_const_fn(did)));
                } else {
                    o.put("parent_key", J::s(defkey(tcx, tcx.parent(did))));
                }
                let is_test = tcx.hir_attrs(tcx.local_def_id_to_hir_id(ldid)).iter().any(|a| {
                    a.has_name(rustc_span::sym::test) || a.has_name(rustc_span::sym::rustc_test_marker)
                });
                o.put("is_test", J::Bool(is_test));
                o.put("mir", cx.body(did, body));
                let promoted = tcx.promoted_mir(did);
                let mut pv = Vec::new();
                for p in promoted.iter() {
                    pv.push(cx.body(did, p));
                }
                o.put("promoted", J::Arr(pv));
                bodies.push(o);
            }
            DefKind::Const { .. } | DefKind::AssocConst { .. } | DefKind::Static { .. } => {
                let ty = tcx.type_of(did).instantiate_identity().skip_norm_wip();
                let mut o = J::obj();
                o.put("path", J::s(defpath(tcx, did)));
                o.put("key", J::s(defkey(tcx, did)));
                o.put("kind", J::s(format!("{:?}", kind).split(|c| c == ' ' || c == '{').next().unwrap_or("").to_string()));
                o.put("ty", J::s(tystr(ty)));
                o.put("span", J::s(span_str(tcx, tcx.def_span(did))));
                o.put("pub", J::Bool(tcx.visibility(did).is_public()));
                o.put("reachable", J::Bool(tcx.effective_visibilities(()).is_reachable(ldid)));
                if matches!(kind, DefKind::AssocConst { .. }) {
                    o.put("ctx", assoc_ctx(tcx, did));
                }
                let parent = tcx.parent(did);
                o.put("parent_key", J::s(defkey(tcx, parent)));
                o.put("parent_kind", J::s(format!("{:?}", tcx.def_kind(parent)).split(|c| c == ' ' || c == '{').next().unwrap_or("").to_string()));
                if matches!(kind, DefKind::Static { .. }) {
                    // statics must not go through const_eval_poly (it asserts on them)
                    let mut v = J::obj();
                    v.put("k", J::s("bytes"));
                    if let Ok(alloc) = tcx.eval_static_initializer(did) {
                        let inner = alloc.inner();
                        if inner.provenance().ptrs().is_empty() && inner.len() <= (1 << 20) {
                            let bytes = inner.inspect_with_uninit_and_ptr_outside_interpreter(0..inner.len());
                            let mut hx = String::with_capacity(bytes.len() * 2);
                            for b in bytes {
                                hx.push_str(&format!("{:02x}", b));
                            }
                            v.put("hex", J::s(hx));
                        }
                    }
                    o.put("val", v);
                } else if tcx.generics_of(did).count() == 0 {
                    match tcx.const_eval_poly(did) {
                        Ok(v) => o.put("val", cx.const_value(v, ty)),
                        Err(_) => o.put("val", J::Null),
                    }
                } else {
                    o.put("val", J::Null);
                }
                consts.push(o);
            }
            _ => {}
        }
        }));
        if res.is_err() {
            // an internal compiler error while extracting one item must not take the whole run down:
            // the item is recorded as unavailable and only the rules that need it fail closed
            bodies.truncate(before_b);
            consts.truncate(before_c);
            driver_errors.push(J::s(defkey(tcx, did)));
        }
    }
    root.put("driver_errors", J::Arr(driver_errors));
    root.put("bodies", J::Arr(bodies));
    root.put("consts", J::Arr(consts));

    // foreign summaries
    let mut out = BTreeMap::new();
    let mut seen = HashSet::new();
    let insts: Vec<Instance<'tcx>> = cx.foreign.values().cloned().collect();
    for inst in insts {
        // only fully monomorphic instances can be walked
        cx.export_plumbing(inst.def_id(), &mut out);
        if inst.args.iter().any(|a| a.as_type().map(|t| t.has_param()).unwrap_or(false)) {
            let key = instance_key(tcx, inst.def_id(), inst.args);
            out.insert(
                key,
                J::obj()
                    .set("def", J::s(defpath(tcx, inst.def_id())))
                    .set("args", args_json(tcx, inst.args))
                    .set("generic", J::Bool(true))
                    .set("has_mir", J::Bool(false)),
            );
            continue;
        }
        cx.foreign_summary(inst, 0, &mut seen, &mut out);
    }
    root.put("foreign", J::Obj(out.into_iter().collect()));

    // impl inventory
    let mut impls = Vec::new();
    for (trait_did, impl_ids) in tcx.all_local_trait_impls(()).iter() {
        for impl_ldid in impl_ids.iter() {
            let impl_did = impl_ldid.to_def_id();
            let tr = tcx.impl_trait_ref(impl_did).instantiate_identity().skip_norm_wip();
            let self_ty = tcx.type_of(impl_did).instantiate_identity().skip_norm_wip();
            let mut o = J::obj();
            o.put("trait", J::s(defpath(tcx, *trait_did)));
            o.put(
                "trait_args",
                J::Arr(tr.args.iter().skip(1).filter_map(|a| a.as_type().map(|t| J::s(tystr(t)))).collect()),
            );
            o.put("self_ty", J::s(tystr(self_ty)));
            o.put("key", J::s(defkey(tcx, impl_did)));
            o.put("span", J::s(span_str(tcx, tcx.def_span(impl_did))));
            let mut defined = Vec::new();
            let mut defined_names = HashSet::new();
            for item in tcx.associated_items(impl_did).in_definition_order() {
                defined.push(
                    J::obj()
                        .set("name", J::s(item.name().to_string()))
                        .set("kind", J::s(format!("{:?}", item.tag())))
                        .set("key", J::s(defkey(tcx, item.def_id))),
                );
                defined_names.insert(item.name().to_string());
            }
            o.put("items", J::Arr(defined));
            let mut inherited = Vec::new();
            for item in tcx.associated_items(*trait_did).in_definition_order() {
                if item.is_fn() && item.defaultness(tcx).has_value() && !defined_names.contains(&item.name().to_string()) {
                    inherited.push(J::s(item.name().to_string()));
                }
            }
            o.put("inherited_defaults", J::Arr(inherited));
            impls.push(o);
        }
    }
    root.put("impls", J::Arr(impls));

    // ADT field visibility of local structs
    let mut adts = Vec::new();
    for id in tcx.hir_free_items() {
        let did = id.owner_id.to_def_id();
        if matches!(tcx.def_kind(did), DefKind::Struct) {
            let adt = tcx.adt_def(did);
            let mut fields = Vec::new();
            for f in adt.all_fields() {
                fields.push(
                    J::obj()
                        .set("name", J::s(f.name.to_string()))
                        .set("pub", J::Bool(f.vis.is_public()))
                        .set("ty", J::s(tystr(tcx.type_of(f.did).instantiate_identity().skip_norm_wip()))),
                );
            }
            adts.push(
                J::obj()
                    .set("path", J::s(defpath(tcx, did)))
                    .set("pub", J::Bool(tcx.visibility(did).is_public()))
                    .set("fields", J::Arr(fields)),
            );
        }
    }
    root.put("structs", J::Arr(adts));
    // field-less local enums with their discriminant values (a cast `e as usize` is a case split over them)
    let mut enums = Vec::new();
    for ldid in tcx.hir_crate_items(()).definitions() {
        let did = ldid.to_def_id();
        if matches!(tcx.def_kind(did), DefKind::Enum) {
            let adt = tcx.adt_def(did);
            if adt.variants().iter().all(|v| v.fields.is_empty()) && adt.variants().len() <= 16 {
                let mut vs = Vec::new();
                for (idx, d) in adt.discriminants(tcx) {
                    vs.push(J::obj().set("name", J::s(adt.variant(idx).name.to_string())).set("discr", J::s(format!("{}", d.val))));
                }
                enums.push(J::obj().set("path", J::s(defpath(tcx, did))).set("variants", J::Arr(vs)));
            }
        }
    }
    root.put("enums", J::Arr(enums));
    root
}
