"""One-line mutants used by the thorough tier's checker self-test.  Each is applied to a scratch
copy of the repository; the named property's check must exit 1 and name one of the expected rules.
(file, old, new) are plain text substitutions of the first occurrence; a mutant whose `old` text is
no longer present (because the tree under test was edited) is skipped and counted."""
M = []
def m(prop, rules, file, old, new, note="", on=None):
    """on: id of a behaviour-preserving refactoring under /verif/refactorings that is applied first (the mutant then tests a
    rule on a re-expressed form of the code, which today's tree does not contain)"""
    M.append({"id": "m%03d" % (len(M) + 1), "property": prop, "rules": rules, "file": file, "old": old, "new": new, "note": note, "on": on})

A = "src/arithmetic.rs"; B = "src/base.rs"; CV = "src/convert.rs"; FR = "src/functions/fraction.rs"; PW = "src/functions/power.rs"
EX = "src/functions/explog.rs"; TR = "src/functions/trigonometry.rs"; HY = "src/functions/hyperbolic.rs"; SG = "src/functions/sign.rs"
FM = "src/format.rs"; SE = "src/serialization.rs"; NI = "src/num_integration.rs"; CO = "src/consts.rs"; LB = "src/lib.rs"

# C01
m("C01", ["R1"], A, "    fast_two_sum(v.hi, u.lo + v.lo)\n", "    TwoFloat { hi: v.hi, lo: u.lo + v.lo }\n", "renormalisation dropped in renorm3")
m("C01", ["R1"], CV, "                fast_two_sum(a, b)\n", "                Self { hi: a, lo: b }\n", "hand-built pair in wide-int From (D4)")
m("C01", ["R3", "R3w"], LB, "pub(crate) lo: f64,", "pub lo: f64,", "public field")
m("C01", ["R1c"], CO, 'lo: hexf64!("0x1.1a62633145c07p-53"),', 'lo: hexf64!("0x1.1a62633145c07p-50"),', "overlapping constant (PI.lo too large)")
m("C01", ["R1"], FR, "        if libm::modf(self.lo).0 == 0.0 {\n            Self {\n                hi: libm::ceil(self.hi),", "        if libm::modf(self.hi).0 != 0.0 {\n            Self {\n                hi: libm::ceil(self.hi),", "k6 guard changed")
# C02
m("C02", ["R4"], A, "        let bb = s - aa;\n        let da = a - aa;\n        let db = b - bb;\n        Self { hi: s, lo: da + db }", "        let bb = s - aa;\n        let da = a - aa;\n        let db = b - bb;\n        Self { hi: s, lo: da - db }", "sign of 2Sum error term")
m("C02", ["R4"], A, "lo: fma(a, b, -p),", "lo: a * b - p,", "fma replaced by mul-sub in 2Prod")
m("C02", ["R4"], A, "    let z = s - a;\n    TwoFloat { hi: s, lo: b - z }", "    let z = a - s;\n    TwoFloat { hi: s, lo: b - z }", "Fast2Sum z reversed")
m("C02", ["R4"], A, "        let d = dh - pl;\n        let tl = d / b;", "        let d = dh + pl;\n        let tl = d / b;", "new_div correction sign")
# C03
m("C03", ["R6"], A, "        let c = sl + th;\n        let (vh, vl) = fast_two_sum(sh, c).into();\n        let w = tl + vl;\n        fast_two_sum(vh, w)\n    }\n\n    /// Implements subtraction of `TwoFloat` and `f64`", "        let c = sl + th;\n        let (vh, vl) = fast_two_sum(sh, c).into();\n        let w = vl;\n        fast_two_sum(vh, w)\n    }\n\n    /// Implements subtraction of `TwoFloat` and `f64`", "tl dropped in Alg. 6 (sloppy add)")
m("C03", ["R6", "R14"], A, "        let v = self.lo + sl;\n        *self = fast_two_sum(sh, v);\n    }\n\n    /// Implements addition of two", "        let v = sl;\n        *self = fast_two_sum(sh, v);\n    }\n\n    /// Implements addition of two", "self.lo dropped in += f64")
m("C03", ["R7"], "src/iter.rs", "iter.fold(Self::zero(), <Self>::add)", "iter.fold(Self::from(1.0), <Self>::add)", "Sum starts from one")
# C04
m("C04", ["R8"], A, "        let cl3 = fma(self.lo, *rhs, cl1);\n        fast_two_sum(ch, cl3)", "        let cl3 = self.lo * *rhs + cl1;\n        fast_two_sum(ch, cl3)", "fma -> mul+add in Alg. 9")
m("C04", ["R8"], A, "        let tl1 = fma(self.hi, rhs.lo, tl0);\n        let cl2 = fma(self.lo, rhs.hi, tl1);\n        let cl3 = cl1 + cl2;\n        fast_two_sum(ch, cl3)", "        let tl1 = fma(self.hi, rhs.lo, tl0);\n        let cl2 = fma(self.lo, rhs.lo, tl1);\n        let cl3 = cl1 + cl2;\n        fast_two_sum(ch, cl3)", "wrong cross term in Alg. 12")
# C05
m("C05", ["R10"], A, "                let q2 = r.hi / rhs.hi;\n                r -=rhs* q2;\n                let q3 = r.hi / rhs.hi;\n                renorm3(q1, q2, q3)\n    }\n\n    fn Rem", "                let q2 = r.hi / rhs.hi;\n                r -=rhs* q2;\n                let q3 = 0.0;\n                renorm3(q1, q2, q3)\n    }\n\n    fn Rem", "third quotient digit dropped in TF/TF")
m("C05", ["R9"], A, "        let dt = dh - pl;\n        let d = dt + self.lo;\n        let tl = d / rhs;\n        fast_two_sum(th, tl)", "        let dt = dh - pl;\n        let d = dt;\n        let tl = d / rhs;\n        fast_two_sum(th, tl)", "self.lo dropped in Alg. 15")
m("C05", ["R11"], B, "        1.0 / self\n", "        1.0 / self.hi * TwoFloat::from(1.0)\n", "recip from the high word only")
# C06
m("C06", ["R12"], B, "            || other.lo.is_nan()\n", "            || self.lo.is_nan()\n", "D1: NaN screen misses other.lo")
m("C06", ["R12b"], B, "(true, false) => Some(Ordering::Less),", "(true, false) => Some(Ordering::Greater),", "valid/invalid ordering swapped")
m("C06", ["R12c"], B, "0.0.partial_cmp(&other.lo)", "other.lo.partial_cmp(&0.0)", "mirror comparison not reversed")
m("C06", ["R12d"], SG, "if self.is_sign_positive() == sign.is_sign_positive() {", "if self.is_sign_positive() != sign.is_sign_positive() {", "copysign inverted")
m("C06", ["R12c"], B, "} else if !other.is_valid() || self >= other {", "} else if !other.is_valid() || self > other {", "max tie handling")
# C07
m("C07", ["R18"], B, "                1076\n", "                1075\n", "half-ulp exponent off by one")
m("C07", ["R18"], B, "Some(Ordering::Equal) => (bits & 1) == 0,", "Some(Ordering::Equal) => (bits & 1) != 0,", "tie parity inverted")
m("C07", ["R18"], B, "FpCategory::Subnormal | FpCategory::Zero => b == 0.0,", "FpCategory::Subnormal | FpCategory::Zero => true,", "subnormal arm accepts anything")
m("C07", ["R17"], B, "self.hi.is_finite() && self.lo.is_finite() && no_overlap(self.hi, self.lo)", "self.hi.is_finite() && no_overlap(self.hi, self.lo)", "is_valid drops a finiteness test")
m("C07", ["R17"], CV, "                hi: value[0],\n                lo: value[1],", "                hi: value[1],\n                lo: value[0],", "array words swapped")
# C08
m("C08", ["R19"], FR, "                    fast_two_sum(self.hi, libm::floor(self.lo))\n                }", "                    fast_two_sum(self.hi, libm::ceil(self.lo))\n                }", "round: half case direction")
m("C08", ["R19"], FR, "(true, false) => fast_two_sum(1.0, lo_fract),", "(true, false) => fast_two_sum(-1.0, lo_fract),", "fract sign")
m("C08", ["R19", "R20"], FR, "            fast_two_sum(self.hi, libm::floor(self.lo))\n        } else {\n            libm::floor(self.hi).into()", "            fast_two_sum(self.hi, libm::ceil(self.lo))\n        } else {\n            libm::floor(self.hi).into()", "floor uses ceil on lo")
m("C08", ["R19"], FR, "        if self.is_sign_positive() {\n            self.floor()", "        if self.is_sign_negative() {\n            self.floor()", "trunc direction")
# C09
m("C09", ["R22"], CV, "                lo: -1.0,", "                lo: 0.0,", "UPPER_BOUND is 2^N instead of MAX")
m("C09", ["R22"], CV, "} else if truncated.lo() >= 0.0 {", "} else if truncated.lo() > 0.0 {", "arm selection")
m("C09", ["R23"], NI, "    fn to_i16(&self) -> Option<i16> {\n        i16::try_from(self).ok()", "    fn to_i16(&self) -> Option<i16> {\n        i8::try_from(self).ok().map(|x| x as i16)", "to_i16 routed through i8")
m("C09", ["R21"], CV, "                Ok(truncated.hi() as $type)\n", "                Ok(value.hi() as $type)\n", "small-int try_from casts the untruncated high word")
# C10
m("C10", ["R14"], A, "        let cl3 = fma(self.lo, *rhs, cl1);\n        *self = fast_two_sum(ch, cl3);", "        let cl3 = fma(self.lo, *rhs, cl1);\n        *self = fast_two_sum(cl3, ch);", "*= f64 swaps Fast2Sum operands")
m("C10", ["R13"], "src/ops_util.rs", "$t, $ot, $($meta,)* { (&$slf).$name() });", "$t, $ot, $($meta,)* { $slf });", "by-value unary wrapper returns its operand unchanged")
m("C10", ["R16"], NI, "    fn abs_sub(&self, other: &Self) -> Self {\n        TwoFloat::abs(&(self - other))", "    fn abs_sub(&self, other: &Self) -> Self {\n        TwoFloat::abs(&(other - self))", "abs_sub operands (value-equal, not bit-equal)")
m("C10", ["R16"], NI, "    fn LOG10_2() -> Self {\n        consts::LOG10_2", "    fn LOG10_2() -> Self {\n        consts::LOG2_10", "FloatConst wired to the wrong constant")
m("C10", ["R16", "R16x"], NI, "    fn ceil(self) -> Self {\n        TwoFloat::ceil(self)\n    }\n\n    #[inline]\n    fn round(self) -> Self {\n        TwoFloat::round(self)\n    }\n\n    #[inline]\n    fn trunc(self) -> Self {\n        TwoFloat::trunc(self)\n    }\n\n    #[inline]\n    fn fract(self) -> Self {\n        TwoFloat::fract(self)\n    }\n\n    #[inline]\n    fn abs(self) -> Self {\n        TwoFloat::abs(&self)\n    }\n\n    #[inline]\n    fn signum(self) -> Self {\n        TwoFloat::signum(&self)\n    }\n\n    #[inline]\n    fn is_sign_positive(self) -> bool {\n        TwoFloat::is_sign_positive(&self)\n    }\n\n    #[inline]\n    fn is_sign_negative(self) -> bool {\n        TwoFloat::is_sign_negative(&self)\n    }\n\n    #[inline]\n    fn min(self, other: Self) -> Self {\n        TwoFloat::min(self, other)\n    }\n\n    #[inline]\n    fn max(self, other: Self) -> Self {\n        TwoFloat::max(self, other)\n    }\n\n    #[inline]\n    fn recip(self) -> Self {\n        TwoFloat::recip(self)\n    }\n\n    #[inline]\n    fn powi(self, exp: i32) -> Self {\n        TwoFloat::powi(self, exp)\n    }\n}\n\nimpl num_traits::Float", "    fn ceil(self) -> Self {\n        TwoFloat::floor(self)\n    }\n\n    #[inline]\n    fn round(self) -> Self {\n        TwoFloat::round(self)\n    }\n\n    #[inline]\n    fn trunc(self) -> Self {\n        TwoFloat::trunc(self)\n    }\n\n    #[inline]\n    fn fract(self) -> Self {\n        TwoFloat::fract(self)\n    }\n\n    #[inline]\n    fn abs(self) -> Self {\n        TwoFloat::abs(&self)\n    }\n\n    #[inline]\n    fn signum(self) -> Self {\n        TwoFloat::signum(&self)\n    }\n\n    #[inline]\n    fn is_sign_positive(self) -> bool {\n        TwoFloat::is_sign_positive(&self)\n    }\n\n    #[inline]\n    fn is_sign_negative(self) -> bool {\n        TwoFloat::is_sign_negative(&self)\n    }\n\n    #[inline]\n    fn min(self, other: Self) -> Self {\n        TwoFloat::min(self, other)\n    }\n\n    #[inline]\n    fn max(self, other: Self) -> Self {\n        TwoFloat::max(self, other)\n    }\n\n    #[inline]\n    fn recip(self) -> Self {\n        TwoFloat::recip(self)\n    }\n\n    #[inline]\n    fn powi(self, exp: i32) -> Self {\n        TwoFloat::powi(self, exp)\n    }\n}\n\nimpl num_traits::Float", "FloatCore::ceil wired to floor")
# C11
m("C11", ["R5", "R25"], A, "    libm::fma(x, y, z)\n", "    x * y + z\n", "non-fused fma in the no_std branch")
m("C11", ["R5"], A, "    f64::mul_add(x, y, z)\n", "    f64::mul_add(y, z, x)\n", "fma arguments rotated in the std branch")
# C12
m("C12", ["R27"], CO, 'hi: hexf64!("0x1.921fb54442d18p1"),', 'hi: hexf64!("0x1.921fb54442d19p1"),', "PI high word + 1 ulp")
m("C12", ["R28"], B, 'lo: hexf64!("0x1.fffffffffffffp+969"),\n    };\n\n    /// Represents an error', 'lo: hexf64!("0x1.ffffffffffffep+969"),\n    };\n\n    /// Represents an error', "MAX low word one ulp short")
m("C12", ["R29"], B, 'hi: hexf64!("0x1.ca5dc1a63c1f8p5"),', 'hi: hexf64!("0x1.ca5dc1a63c1f9p5"),', "deg/rad factor high word")
# C13
m("C13", ["R31"], PW, "(self - Self::new_mul(y, y)).hi * (x * 0.5)", "(self - Self::new_mul(y, y)).hi * x", "sqrt correction factor")
m("C13", ["R31", "R32"], PW, "        if self.hi == 0.0 {\n            return self;\n        }\n", "", "D5: cbrt zero guard removed")
m("C13", ["R26", "R30"], B, "let mut n_pos = n.unsigned_abs();", "let mut n_pos = n.abs();", "D2: i32::abs overflow")
m("C13", ["R26"], B, "                    value *= value;", "                    value *= &self;", "powi squares the wrong variable")
m("C13", ["R31"], PW, "if self.hi < 0.0 || (self.hi == 0.0 && self.lo < 0.0) {", "if self.hi < 0.0 {", "sqrt domain guard incomplete")
# C14
m("C14", ["R35"], EX, "const EXP_UPPER_LIMIT: f64 = 709.0;", "const EXP_UPPER_LIMIT: f64 = 699.0;", "overflow switch inside the accurate range")
m("C14", ["R35", "R36"], EX, "const EXP_UPPER_LIMIT: f64 = 709.0;", "const EXP_UPPER_LIMIT: f64 = 721.0;", "overflow switch beyond the table: exp_half panics")
m("C14", ["R35"], EX, "FRAC_FACT[2..15]);\n        //return", "FRAC_FACT[2..9]);\n        //return", "Taylor series shortened")
m("C14", ["R35"], EX, "            r1 = r1 * r1; // 2^(r * 512)\n", "", "one squaring dropped in exp2")
m("C14", ["R33"], EX, 'hi: hexf64!("0x1.93bf4ec282efbp+1015"),', 'hi: hexf64!("0x1.93bf4ec282efcp+1015"),', "table high word + 1 ulp")
m("C14", ["R35"], PW, "if low_trunc % 2.0 == 0.0 {", "if low_trunc % 2.0 != 0.0 {", "powf parity inverted")
m("C14", ["R35"], EX, "(true, false) => EXP_16_N[a - 1],", "(true, false) => EXP_16_N[a],", "table index off by one")
m("C14", ["R35", "R36"], EX, "        assert!(self.hi().abs() < 0.25 + 1.0 / 256.0);", "        assert!(self.hi().abs() <= 0.25);", "D7: assertion tighter than the reduction guarantees")
# C15
m("C15", ["R39"], EX, "            Self::from(0.0)\n        } else if self <= 0.0 {\n            Self::NAN\n        } else {\n            let mut x = Self::from(libm::log2(self.hi));", "            Self::from(1.0)\n        } else if self <= 0.0 {\n            Self::NAN\n        } else {\n            let mut x = Self::from(libm::log2(self.hi));", "D3: log2(1) = 1")
m("C15", ["R39"], EX, "        } else if self <= -1.0 {", "        } else if self < -1.0 {", "ln_1p(-1) not rejected")
m("C15", ["R38"], EX, "        self.ln() / LN_10\n", "        self.ln() * crate::consts::LOG10_E\n", "log10 not the stated quotient")
m("C15", ["R39"], EX, "            let mut x = Self::from(libm::log(self.hi));\n            x += self * (-x).exp() - 1.0;\n            x += self * (-x).exp() - 1.0;\n            x + self * (-x).exp() - 1.0", "            let x = Self::from(libm::log(self.hi));\n            x + self * (-x).exp() - 1.0", "only one Newton step in ln")
# C16
m("C16", ["R41"], TR, "            1 => restricted_cos(x),\n            2 => -restricted_sin(x),", "            1 => -restricted_cos(x),\n            2 => -restricted_sin(x),", "sin quadrant 1 sign")
m("C16", ["R41"], TR, "            1 => (c, -s),", "            1 => (c, s),", "sin_cos arm differs from cos")
m("C16", ["R41"], TR, "let quotient = (value / FRAC_PI_2).round();", "let quotient = (value / FRAC_PI_2).trunc();", "reduction rounding")
m("C16", ["R43"], TR, 'hi: hexf64!("-0x1.5555555555555p-3"),', 'hi: hexf64!("-0x1.5555555555565p-3"),', "sine kernel leading coefficient perturbed")
# C17
m("C17", ["R44"], TR, "restricted_atan((x - 0.5) / (1.0 + 0.5 * x))", "restricted_atan((x - 0.5) / (1.0 + 1.5 * x))", "atan transform uses two different c")
m("C17", ["R44"], TR, "} else if k < 5.0 {", "} else if k < 6.0 {", "atan breakpoint moved")
m("C17", ["R46"], TR, "            } else if self.hi.is_sign_positive() {\n                PI\n            }", "            } else if other.hi.is_sign_positive() {\n                PI\n            }", "atan2 axis sign taken from the wrong operand")
m("C17", ["R45"], TR, "        } else if abs_val <= 0.5 {\n            restricted_asin(self)", "        } else if abs_val <= 0.75 {\n            restricted_asin(self)", "asin kernel used beyond its interval")
# C18
m("C18", ["R49", "R48"], HY, "(e_plus - e_minus) / (e_plus + e_minus)", "(e_plus - e_minus) / (e_plus - e_minus)", "tanh denominator")
m("C18", ["R47", "R49"], HY, "        let x = self.abs();\n        let result = (x + (x * x + 1.0).sqrt()).ln();\n        if self.is_sign_positive() {\n            result\n        } else {\n            -result\n        }", "        (self + (self * self + 1.0).sqrt()).ln()", "D6: asinh without the sign split")
m("C18", ["R49"], HY, "self.exp() / 2.0 - (-self).exp() / 2.0", "self.exp() / 2.0 + (-self).exp() / 2.0", "sinh is cosh")
# C19
m("C19", ["R51"], A, "    fn Rem::rem<'a, 'b>(self: &'a f64, rhs: &'b TwoFloat) -> TwoFloat {\n        let quotient = (self / rhs).trunc();", "    fn Rem::rem<'a, 'b>(self: &'a f64, rhs: &'b TwoFloat) -> TwoFloat {\n        let quotient = (self / rhs).floor();", "one rem pairing uses floor")
m("C19", ["R52"], A, "            if rhs > 0.0 {\n                quotient - 1.0", "            if rhs < 0.0 {\n                quotient - 1.0", "div_euclid adjustment sign")
m("C19", ["R52"], A, "            remainder + rhs.abs()", "            remainder + rhs", "rem_euclid adds b instead of |b|")
# C20
m("C20", ["R53"], FM, 'None => write!(f, "{:+e} {} {:e}", self.hi, sign_char, libm::fabs(self.lo)),', 'None => write!(f, "{:+e} {} {:+e}", self.hi, sign_char, libm::fabs(self.lo)),', "sign flag on the low numeral")
m("C20", ["R53m"], FM, "let sign_char = if self.lo().is_sign_positive() {", "let sign_char = if self.lo() >= 0.0 {", "sign char from comparison (loses -0.0)")
m("C20", ["R54"], SE, 'state.serialize_field("lo", &self.lo)?;', 'state.serialize_field("lo", &self.hi)?;', "writer emits hi twice")
m("C20", ["R54"], SE, "                            lo = Some(map.next_value()?);", "                            hi = Some(map.next_value()?);", "Lo key stored in the hi slot")
m("C20", ["R54"], SE, '"lo" => Ok(Field::Lo),', '"low" => Ok(Field::Lo),', "reader field name differs from writer")

# ---- rules relaxed while hardening against refactorings must still catch the defect they used to catch
m("C20", ["R53m", "R53x"], FM, 'None => write!(f, "{:e} {} {:e}", self.hi, sign_char, libm::fabs(self.lo)),', 'None => write!(f, "{:e} {} {}", self.hi, sign_char, libm::fabs(self.lo)),', "Display placeholder for the low word inside LowerExp (the AST rule leaves the trait to the MIR rule)")
m("C07", ["RD"], B, "            match libm::fabs(b).partial_cmp(&limit) {", "            debug_assert!(libm::fabs(b) <= libm::fabs(a));\n            match libm::fabs(b).partial_cmp(&limit) {", "a debug assertion that valid callers can violate (form rules assume it, RD must not)")
m("C04", ["R8", "RB"], A, "    f64::mul_add(x, y, z)\n", "    f64::mul_add(y, z, x)\n", "fma wrapper with rotated operands in the std build (R5 no longer fixes the arrangement; conformance must)")
m("C02", ["R4"], A, "    f64::mul_add(x, y, z)\n", "    f64::mul_add(z, y, x)\n", "fma wrapper with swapped operands")
m("C03", ["R7"], "src/iter.rs", "iter.fold(Self::zero(), <Self>::add)", "{ let mut t = Self::zero(); let mut n = 0usize; iter.for_each(|x| { if n == 0 { t = t + x; } n += 1; }); t }", "sum that only adds the first item, written with for_each (captures assigned inside an opaque call)")
# round 7: the powi walker enumerates the paths of one pass instead of matching one loop shape; division by 2^k is read as multiplication by 2^-k
m("C13", ["R26"], B, "                while n_pos > 0 {\n                    if (n_pos & 1) != 0 {", "                while n_pos > 1 {\n                    if (n_pos & 1) != 0 {", "powi loop stops one bit early")
m("C13", ["R26"], B, "                while n_pos > 0 {\n                    if (n_pos & 1) != 0 {\n                        result *= &value;\n                    }\n                    value *= value;\n                    n_pos >>= 1;\n                }", "                loop {\n                    n_pos >>= 1;\n                    if n_pos == 0 {\n                        break;\n                    }\n                    if (n_pos & 1) != 0 {\n                        result *= &value;\n                    }\n                    value *= value;\n                }", "powi loop with an early break that drops the lowest bit")
m("C13", ["R26"], B, "                while n_pos > 0 {\n                    if (n_pos & 1) != 0 {\n                        result *= &value;\n                    }\n                    value *= value;\n                    n_pos >>= 1;\n                }", "                loop {\n                    if (n_pos & 1) != 0 {\n                        result *= &value;\n                    }\n                    n_pos >>= 1;\n                    value *= value;\n                    if n_pos == 0 {\n                        break;\n                    }\n                    result *= &value;\n                }", "powi loop with an early break and one multiplication too many per pass")
m("C14", ["R33", "R36"], EX, "            let z = self - y / 2.0;", "            let z = self - y * 0.25;", "exp reduction subtracts y/4 (multiplication by a different power of two)")
m("C14", ["R36"], EX, "assert!(n.abs() <= 32);", "assert!(n.abs() <= 31);", "table assertion tighter than the reduction guarantees (code panics are left to the totality rule by the form rule)")
m("C07", ["RD"], B, "            let offset = if (bits & MANTISSA_MASK) == 0", "            debug_assert!((1..=2045).contains(&biased_exponent));\n            let offset = if (bits & MANTISSA_MASK) == 0", "a debug assertion on the exponent field that the largest normal numbers violate (the category fact gives 1..=2046, not less)")
m("C09", ["R24", "RD"], CV, "                Ok(truncated.hi() as $type)", "                debug_assert!(LOWER_BOUND < truncated.hi());\n                Ok(truncated.hi() as $type)", "a debug assertion with a strict bound that T::MIN violates (the range fact is inclusive)")
# round 8: mutants of re-expressed forms (applied on top of a behaviour-preserving refactoring)
m("C13", ["R26"], B, "for bit in 0..(u32::BITS - n_pos.leading_zeros()) {", "for bit in 1..(u32::BITS - n_pos.leading_zeros()) {", "indexed powi loop skips bit 0", on="Y0-4")
m("C13", ["R26"], B, "for bit in 0..(u32::BITS - n_pos.leading_zeros()) {", "for bit in 0..(u32::BITS - 1 - n_pos.leading_zeros()) {", "indexed powi loop stops before the top bit", on="Y0-4")
m("C13", ["R26"], B, "if ((n_pos >> bit) & 1) != 0 {", "if ((n_pos >> bit) & 1) == 0 {", "indexed powi loop multiplies on clear bits", on="Y0-4")
m("C13", ["R30"], B, "for bit in 0..(u32::BITS - n_pos.leading_zeros()) {", "for bit in 0..(u32::BITS + 1 - n_pos.leading_zeros()) {", "indexed powi loop shifts by 32 when the top bit is set (i32::MIN)", on="Y0-4")
m("C05", ["R10", "R10e"], A, "            if i == QUOTIENT_TERMS - 1 {\n                break;\n            }\n            r -= rhs * q[i];\n            i += 1;\n        }\n        renorm3(q[0], q[1], q[2])\n", "            if i == QUOTIENT_TERMS - 2 {\n                break;\n            }\n            r -= rhs * q[i];\n            i += 1;\n        }\n        renorm3(q[0], q[1], q[2])\n", "rolled-up long division stops after two quotient digits", on="Y0-4")
m("C14", ["R33", "R35"], EX, 'hexf64!("0x1.a61298e1e069cp+0"),  // exp(1/2)^1', 'hexf64!("0x1.a61298e1e069dp+0"),  // exp(1/2)^1', "parallel word tables: one high word of exp(1/2)^k off by one ulp", on="Y1-4")
m("C08", ["RD"], FR, "    pub fn round(self) -> Self {\n        if libm::modf(self.lo).0 == 0.0 {", "    pub fn round(self) -> Self {\n        let _digits = (self.hi as i32) + 1;\n        if libm::modf(self.lo).0 == 0.0 {", "an integer addition that overflows (and panics in builds with overflow checks) for hi >= 2^31: the form rule reads past the check, RD must not")
m("C14", ["R36"], EX, "    if n >= 1440 {\n        return None;", "    if n >= 1400 {\n        return None;", "Option-returning table helper gives up (None, then expect panics in exp) inside the range exp reduces to", on="A1-4")
m("C14", ["R35"], EX, "    Some(match (a > 0, b > 0) {", "    Some(match (a > 0, b > 1) {", "Option-returning table helper drops the exp(1/2) factor for b == 1", on="A1-4")
m("C20", ["RD", "R54"], SE, "                    .ok_or_else(|| de::Error::invalid_length(1, &self))?;\n                TwoFloat::try_from((hi, lo)).map_err(|_| {\n                    de::Error::invalid_value(Unexpected::Float(lo), &\"non-overlapping low word\")\n                })", "                    .ok_or_else(|| de::Error::invalid_length(1, &self))?;\n                Ok(TwoFloat::try_from((hi, lo)).expect(\"non-overlapping low word\"))", "the sequence visitor panics on an overlapping pair instead of returning an error (explicit panics are left to RD by the form rules)")
m("C16", ["R41"], TR, "    x + x * (x2 * polynomial!(x2, SIN_COEFFS))", "    x + x2 * (x2 * polynomial!(x2, SIN_COEFFS))", "re-ordered sine kernel multiplies the correction by x^2 instead of x", on="Z0-6")
m("C16", ["R41"], TR, "    x + x * (x2 * polynomial!(x2, TAN_COEFFS))", "    x + x * polynomial!(x2, TAN_COEFFS)", "re-ordered tangent kernel loses the x^2 factor", on="Z0-6")
m("C14", ["R35"], EX, "return x * f64::from_bits(1u64 << (y + 1074));", "return x * f64::from_bits(1u64 << (y + 1075));", "mul_pow2 subnormal branch scales by 2^(y+1) (the scaling rule evaluates the helper for every exponent with the word symbolic)")
m("C14", ["R35"], EX, "return x * f64::from_bits(((y + 1023) as u64) << 52);", "return x * f64::from_bits(((y + 1022) as u64) << 52);", "mul_pow2 normal branch uses the wrong exponent bias")
m("C07", ["R17"], B, "self.hi.is_finite() && self.lo.is_finite() && no_overlap(self.hi, self.lo)", "self.hi.abs() <= f64::INFINITY && self.lo.is_finite() && no_overlap(self.hi, self.lo)", "is_finite re-spelled as |x| <= inf (true for infinities; |x| < inf is the accepted spelling)")
m("C06", ["R12d"], SG, "self.hi.is_sign_positive()", "self.hi >= 0.0", "sign bit re-spelled as a comparison with zero (differs for -0.0)")
# round 12: integers as mathematical values, namesake forwarding, loops havoc'd in the configuration diff
m("C14", ["R35"], EX, "    let (a, b) = (m >> 5, m & 31);", "    let (a, b) = (m >> 5, m & 15);", "table index re-spelled with a shift and a mask: wrong mask", on="D1-3")
m("C14", ["R35"], EX, "    let (a, b) = (m >> 5, m & 31);", "    let (a, b) = (m >> 4, m & 31);", "table index re-spelled with a shift and a mask: wrong shift", on="D1-3")
m("C14", ["R35"], EX, "let expm1_x0 = expm1_128th(libm::trunc(n) as isize);", "let expm1_x0 = expm1_128th(libm::trunc(n) as u8 as isize);", "index computed through a cast that loses negative values (the accepted re-typing i32 -> isize loses none)", on="D1-3")
m("C14", ["R35"], EX, "let (a, b) = ((n / 32) as usize, (n % 32) as usize);", "let (a, b) = ((n / 32) as usize, (n % 16) as usize);", "wrong modulus in the exp_half table index")
m("C10", ["R16", "R16x"], NI, "        FloatCore::is_infinite(self)", "        !FloatCore::is_finite(self)", "Float::is_infinite forwarded to the wrong namesake expression (true for NaN)", on="F2-6")
m("C20", ["RD"], FM, "debug_assert!(abs_lo.is_sign_positive());", "debug_assert!(lo.is_sign_positive());", "hardening assertion on the wrong variable (fails for every negative low word)", on="F2-1")
m("C11", ["R25"], B, "                    n_pos >>= 1;", "                    n_pos >>= if cfg!(feature = \"std\") { 1 } else { 2 };", "powi loop body depends on the configuration (bodies with loops are compared with the loops havoc'd)")
m("C09", ["R23"], NI, "            if libm::fabs(f) < INT_THRESHOLD {", "            if libm::fabs(f) <= INT_THRESHOLD {", "fix D9 reverted: NumCast::from(2^53+1) returns 2^53")
m("C11", ["R25"], FR, "        x.round()\n", "        x.round_ties_even()\n", "the std branch of a configuration-split helper rounds ties to even (libm::round, the no_std branch, rounds them away from zero)", on="G0-2")
m("C13", ["R31"], PW, "        self * self\n", "        self * self.hi\n", "the new public helper that hypot now goes through drops the low word of one factor", on="H1-2")
m("C18", ["R49"], HY, "        if self < 1.0 {\n            return Self::NAN;\n        }\n        (self + (self * self - 1.0).sqrt()).ln()", "        (self + (self * self - 1.0).sqrt()).ln()", "fix D10 reverted: acosh without its domain test (large negative arguments with a low word return finite values)")
m("C15", ["R39"], EX, "        } else if self.hi < -0.5 {", "        } else if self.hi < -2.0 {", "fix D11 disabled: ln_1p next to -1 starts from log1p(hi) again")
m("C15", ["R39"], EX, "            (1.0 + self).ln()", "            Self::from(1.0 + self.hi).ln()", "ln_1p next to -1 drops the low word when forming 1 + x")
m("C10", ["R16"], NI, "        self.hi.is_nan() || self.lo.is_nan()\n    }\n}\n\nimpl num_traits::NumCast", "        self.hi.is_nan()\n    }\n}\n\nimpl num_traits::NumCast", "a new inherent is_nan that reads the high word only, next to trait methods that read both (entry points no longer agree with their inherent counterpart)", on="G0-3")
m("C16", ["R41", "R43"], TR, "    iter.fold(*init, |a, n| x * a + n)", "    iter.fold(*init, |a, n| x * a - n)", "Horner step over the descending sine table subtracts the coefficient", on="J1-3")
m("C14", ["R35", "R39d"], EX, "        let x0 = n * 0.0078125; // n / 128, exact", "        let x0 = n * 0.0078; // n / 128", "reciprocal multiplication with a constant that is not 2^-7", on="J1-6")
m("C14", ["R35"], EX, "            let y = libm::round(self.hi + self.hi);", "            let y = libm::round(self.hi + self.lo);", "h + h (accepted for 2.0 * h) mistyped as hi + lo", on="J1-6")
# the loop of powi in a private helper (refactoring K0-1)
m("C13", ["R26"], B, "let result = self.powu(n.unsigned_abs());", "let result = self.powu(n as u32);", "the extracted loop helper is handed `n as u32` instead of |n| (wrong for every negative exponent)", on="K0-1")
m("C13", ["R26"], B, "            value *= value;\n            n_pos >>= 1;\n        }\n        result\n    }", "            value *= value;\n            n_pos >>= 2;\n        }\n        result\n    }", "the extracted loop helper consumes two exponent bits per squaring", on="K0-1")
m("C13", ["R26"], B, "        let mut value = self;\n        while n_pos > 0 {", "        let mut value = self * self;\n        while n_pos > 0 {", "the extracted loop helper starts from self^2", on="K0-1")
# the clean halves of round 16's two-site defects (refactorings K0-2 .. K0-4)
m("C04", ["R8"], A, "        mul_dw_f64(rhs.hi, rhs.lo, *self)", "        mul_dw_f64(*self, rhs.lo, rhs.hi)", "the shared Algorithm 9 kernel is called with the single word in the double-word slot by the mirrored f64 * TwoFloat form", on="K0-2")
m("C09", ["R23"], NI, "    fn from_isize(n: isize) -> Option<Self> {\n        from_word(n as i64)", "    fn from_isize(n: isize) -> Option<Self> {\n        from_word(n as i32 as i64)", "the pointer-sized route narrows to 32 bits on its way to the 64-bit helper", on="K0-3")
m("C07", ["R18"], B, "        no_overlap_abs(-a, -b)", "        no_overlap_abs(-a, b)", "the sign-dispatching wrapper of no_overlap negates the high word only", on="K0-4")
m("C07", ["R18"], B, "(bits & MANTISSA_MASK) == 0 && b.is_sign_negative() {", "(bits & MANTISSA_MASK) == 0 && b.is_sign_positive() {", "the core of no_overlap halves the limit on the wrong side of a power of two", on="K0-4")
